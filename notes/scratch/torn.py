import numpy, os, random, tempfile
from catii.indxio import IndxIO
rng=random.Random(4); u=lambda l: numpy.array(l,dtype=numpy.uint32)
mags=[0,1,255,256,65535,65536,2**32-1,2**32,2**63-1]
tot=0; acc=0
for it in range(150):
    ar=rng.randint(1,3); n=rng.choice([0,1,3,6]); keys=set()
    while len(keys)<n: keys.add(tuple(rng.choice(mags) if rng.random()<0.3 else rng.randint(0,300) for _ in range(ar)))
    entries={k:u(sorted(rng.sample(range(60), rng.choice([0,1,4,9])))) for k in keys}
    with tempfile.NamedTemporaryFile(dir='/tmp/x') as f:
        IndxIO.save(f, entries, rng.choice(mags), numpy.dtype(numpy.uint32)); f.flush(); L=f.tell()
        for k in range(L-1,-1,-1):
            os.ftruncate(f.fileno(), k); f.seek(0); tot+=1
            try:
                r=IndxIO.load(f); acc+=1; print("ACCEPTED", k, L, r[0]); break
            except Exception: pass
print(tot, acc)
