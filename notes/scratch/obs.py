import numpy, random, itertools, collections
from catii import iindex
rng=random.Random(9); bad=collections.Counter()
def build(a, common):
    entries={}
    for hi in itertools.product(*[range(e) for e in a.shape[1:]]):
        col=a[(slice(None),)+hi]
        for v in sorted(set(col.tolist())):
            if v==common: continue
            entries[(int(v),)+hi]=numpy.nonzero(col==v)[0].astype(numpy.uint32)
    return iindex(entries, common, a.shape)
for it in range(3000):
    N=rng.choice([0,1,3,6]); C=rng.choice([None,1,3])
    shape=(N,) if C is None else (N,C)
    a=numpy.array([rng.randrange(4) for _ in range(int(numpy.prod(shape)))],dtype=int).reshape(shape)
    common=rng.randrange(5); idx=build(a,common)
    cols=[()] if C is None else [(c,) for c in range(C)]
    # items(force=True)
    got=collections.defaultdict(list)
    for k,v in idx.items(force=True): got[k].append(v.tolist())
    for col in cols:
        colarr=a if C is None else a[:,col[0]]
        for v in range(5):
            rows=numpy.nonzero(colarr==v)[0].tolist()
            key=(v,)+col
            g=idx.get(key, force=True)
            if (g is None) != (len(rows)==0) or (g is not None and g.tolist()!=rows): bad['get']+=1
            if v==common:
                if got.get(key)!=[rows]: bad['items-common']+=1
                cr = idx.common_rowids(*col) if C is not None else idx.common_rowids()
                if cr.tolist()!=rows or cr.dtype!=numpy.uint32: bad['common_rowids']+=1
            else:
                if rows and got.get(key)!=[rows]: bad['items']+=1
                if not rows and key in got: bad['items-empty']+=1
    td=idx.to_dict(force=True)
    if {k:v for k,v in td.items()}!={k:v[0] for k,v in got.items()}: bad['to_dict']+=1
print(dict(bad))
