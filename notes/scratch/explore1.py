import numpy, random, traceback, warnings, sys, collections
from orc import *
warnings.simplefilter('ignore')
rng = random.Random(int(sys.argv[1]) if len(sys.argv)>1 else 1)
buckets = collections.Counter(); examples = {}
def dy(lo=-16, hi=16): return rng.randint(lo*4, hi*4)/4.0
ncase = 0
for it in range(int(sys.argv[2]) if len(sys.argv)>2 else 3000):
    nd = rng.choice([0,1,1,2,2,3])
    N = rng.choice([0,1,2,3,5,8,13])
    shape = tuple(rng.randint(1,4) for _ in range(nd))
    dense = [numpy.array([rng.choice([0]*3+list(range(e))) if rng.random()<0.6 else rng.randrange(e) for _ in range(N)], dtype=int) for e in shape]
    commons = [rng.randrange(e+1) if rng.random()<0.5 else None for e in shape]
    agg = rng.choice(['count','valid_count','sum','mean'])
    ignore = rng.random()<0.5
    K = rng.choice([None,None,1,2,3])
    fact=fvalid=None; factarg=None
    if agg != 'count':
        fshape = (N,) if K is None else (N,K)
        isint = rng.random()<0.3
        fact = numpy.array([dy() for _ in range(int(numpy.prod(fshape)))]).reshape(fshape)
        if isint: fact = fact.astype(int)
        fvalid = numpy.array([rng.random()<0.75 for _ in range(int(numpy.prod(fshape)))], dtype=bool).reshape(fshape)
        if not isint and rng.random()<0.5:
            f2 = fact.astype(float).copy(); f2[~fvalid] = NaN; factarg = f2
            ff='nanarr'
        else:
            f2 = fact.copy()
            if not isint:
                # junk under invalid
                for ix in zip(*numpy.nonzero(~fvalid)):
                    f2[ix] = rng.choice([NaN, 1e6, -3.0])
            factarg = (f2, fvalid.copy()); ff='tuple'
    wform = rng.choice(['none','scalar','arr','tuple'])
    w=wvalid=None; warg=None
    if wform=='scalar':
        w = rng.choice([0.0, 0.5, 1.0, 2.0, NaN]); wvalid = not numpy.isnan(w); warg = w
        if not wvalid: w = 0.0
    elif wform in ('arr','tuple'):
        w = numpy.array([rng.choice([0.0,0.25,0.5,1.0,2.0,3.0]) for _ in range(N)])
        wvalid = numpy.array([rng.random()<0.8 for _ in range(N)], dtype=bool)
        if wform=='arr': w2=w.copy(); w2[~wvalid]=NaN; warg=w2
        else:
            w2=w.copy(); w2[~wvalid]=rng.choice([NaN, 7.0]); warg=(w2, wvalid.copy())
    if N==0 and wform in ('arr','tuple') : pass
    fmt = rng.choice(['nan','tuple','plain'])
    rma = {'nan':NaN,'tuple':(rng.choice([0,-1,99.5]),False),'plain':0}[fmt]
    if nd==0 and agg=='count' and wform in('none','scalar'): continue
    ev, em = brute(dense, shape, agg, fact, fvalid, w, wvalid, ignore, N=N)
    idxs = []
    for d,c in zip(dense,commons):
        ii = iindex.from_array(d) if c is None and N>0 else iindex.from_array(d, common=(c if c is not None else 0))
        idxs.append(ii)
    sig = (agg, wform, 'K%s'%K, 'ign' if ignore else 'prop', fmt)
    for kind in ('ccube','xcube'):
        try:
            if kind=='ccube': cube = ccube(idxs, interacting_shape=shape)
            else: cube = xcube(dense, interacting_shape=shape)
            if agg=='count': res = cube.count(warg, ignore_missing=ignore, return_missing_as=rma)
            else: res = getattr(cube, agg)(factarg, warg, ignore_missing=ignore, return_missing_as=rma)
            v, m = norm(res, fmt)
            if nd == 0:
                v = numpy.asarray(v).reshape(ev.shape) if numpy.size(v)==numpy.size(ev) else v
                if m is not None: m = numpy.asarray(m).reshape(em.shape)
            ok = True
            if v.shape != ev.shape: ok=False; why='shape %s vs %s'%(v.shape, ev.shape)
            elif m is not None and not numpy.array_equal(m, em): ok=False; why='missing'
            elif m is not None and not numpy.allclose(v, ev, atol=1e-9): ok=False; why='values'
            elif m is None:
                # plain: missing cells should be 0 = rma
                if agg=='valid_count' and not ignore: continue
                if not numpy.allclose(v, ev, atol=1e-9): ok=False; why='values-plain'
            if not ok:
                key = (kind, why) + sig[:4]
                buckets[key]+=1
                examples.setdefault(key, dict(dense=[d.tolist() for d in dense], shape=shape, commons=commons, fact=None if fact is None else factarg, w=warg, ignore=ignore, rma=rma, got=res, exp=(ev.tolist(), em.tolist())))
        except Exception as e:
            tb = traceback.extract_tb(e.__traceback__)[-1]
            key = (kind, 'EXC', type(e).__name__, str(e)[:50], '%s:%d'%(tb.filename.split('/')[-1], tb.lineno)) + sig[:3] + ('N0' if N==0 else 'N+', 'nd%d'%nd)
            buckets[key]+=1
            examples.setdefault(key, dict(dense=[d.tolist() for d in dense], shape=shape, commons=commons, fact=None if fact is None else factarg, w=warg, ignore=ignore, rma=rma))
    ncase+=1
print(ncase, "cases")
for k,v in sorted(buckets.items(), key=lambda kv: (kv[0][0], kv[0][1], -kv[1])): print(v, k)
import pickle; pickle.dump(examples, open('ex1.pkl','wb'))
