import sys, itertools, numpy, time
sys.path.insert(0, sys.argv[1])
import catii.set_operations as so
m=int(sys.argv[2])
def subsets(universe):
    out=[]
    for r in range(len(universe)+1):
        for c in itertools.combinations(universe, r): out.append(c)
    return out
t=time.time(); n=0; bad=[]
for uni in (list(range(m)), list(range(2**32-m, 2**32)), list(range(m//2))+list(range(2**32-(m-m//2),2**32))):
    subs=subsets(uni); arrs=[numpy.array(s,dtype=numpy.uint32) for s in subs]; sets=[set(s) for s in subs]
    for i,(a,A) in enumerate(zip(arrs,sets)):
        for j,(b,B) in enumerate(zip(arrs,sets)):
            n+=1
            try:
                r1=so.set_intersect_merge_np(a,b).tolist(); r2=so.set_union_merge_np(a,b).tolist(); r3=so.set_difference_merge_np(a,b).tolist()
                if r1!=sorted(A&B) or r2!=sorted(A|B) or r3!=sorted(A-B): bad.append((subs[i],subs[j]))
            except Exception as e: bad.append((subs[i],subs[j],repr(e)))
    # many
    for trip in itertools.islice(itertools.product(range(len(subs)), repeat=3), 0, 200000, 7):
        arrl=[arrs[k] for k in trip]; U=set().union(*[sets[k] for k in trip])
        try:
            r=so.set_union_merge_many(arrl).tolist()
            if r!=sorted(U): bad.append(('many',[subs[k] for k in trip], r))
        except Exception as e: bad.append(('many',[subs[k] for k in trip],repr(e)))
print(n, 'pairs', len(bad), 'bad', bad[:3], round(time.time()-t,1),'s')
print(so.set_union_merge_many([]), so.set_union_merge_many([numpy.array([],dtype=numpy.uint32)]))
