import sys, threading, random, time, numpy, types
import catii.ccubes as cc, catii.xcubes as xc
from catii import iindex, ccube, xcube, ffuncs, xfuncs

class DetPool:
    """ThreadPool-like: map(fn, iterable) runs tasks on `size` worker threads, one runnable at a time,
    switching only at opcode boundaries in traced files, following `preempt` = {global_step: choice}."""
    FILES = None
    def __init__(self, size, preempt, order_seed=0):
        self.size=size; self.preempt=dict(preempt); self.steps=0; self.switches=0
        self.rng=random.Random(order_seed)
    def close(self): pass
    def join(self): pass
    def map(self, fn, iterable):
        tasks=list(iterable); self.results=[None]*len(tasks); self.errors=[None]*len(tasks)
        self.next_task=0
        nworkers=min(self.size, max(1,len(tasks)))
        self.cv=threading.Condition()
        self.current=None; self.alive=set(range(nworkers))
        threads=[threading.Thread(target=self._worker, args=(w, fn, tasks)) for w in range(nworkers)]
        self.current=0
        for t in threads: t.start()
        for t in threads: t.join()
        for e in self.errors:
            if e is not None: raise e
        return self.results
    def _wait_turn(self, w):
        with self.cv:
            while self.current != w: self.cv.wait()
    def _switch(self, w, to):
        with self.cv:
            self.current=to; self.switches+=1; self.cv.notify_all()
            while self.current != w: self.cv.wait()
    def _trace(self, w):
        pool=self
        def local(frame, event, arg):
            if event=='opcode':
                pool.steps+=1
                ch = pool.preempt.get(pool.steps)
                if ch is not None:
                    others=sorted(pool.alive-{w})
                    if others: pool._switch(w, others[ch % len(others)])
            return local
        def glob(frame, event, arg):
            if frame.f_code.co_filename in pool.FILES:
                frame.f_trace_opcodes=True
                return local
            return None
        return glob
    def _worker(self, w, fn, tasks):
        self._wait_turn(w)
        sys.settrace(self._trace(w))
        try:
            while True:
                i=self.next_task
                if i>=len(tasks): break
                self.next_task=i+1
                try: self.results[i]=fn(tasks[i])
                except BaseException as e: self.errors[i]=e
        finally:
            sys.settrace(None)
            with self.cv:
                self.alive.discard(w)
                if self.alive: self.current=min(self.alive)
                else: self.current=None
                self.cv.notify_all()
DetPool.FILES={cc.__file__, xc.__file__, ffuncs.__file__, xfuncs.__file__, sys.modules['catii.iindexes'].__file__}

rng=random.Random(3)
N=8
a=numpy.array([[rng.randrange(3) for _ in range(6)] for _ in range(N)])
b=numpy.array([rng.randrange(2) for _ in range(N)])
ia=iindex.from_array(a); ib=iindex.from_array(b)
fact=numpy.arange(N)*0.5
cube=ccube([ia,ib])
serial=cube.calculate([ffuncs.ffunc_count(), ffuncs.ffunc_sum(fact)])
t=time.time()
for trial in range(20):
    pre={rng.randrange(1,4000):rng.randrange(8) for _ in range(5)}
    pool=DetPool(4, pre)
    class Shim: pass
    shim=types.SimpleNamespace(pool=types.SimpleNamespace(ThreadPool=lambda n: pool))
    cc.multiprocessing=shim
    cube=ccube([ia,ib]); cube.parallel=True
    res=cube.calculate([ffuncs.ffunc_count(), ffuncs.ffunc_sum(fact)])
    assert all(x.tobytes()==y.tobytes() for x,y in zip(res,serial))
print("20 trials", time.time()-t, "steps", pool.steps, "switches", pool.switches)
