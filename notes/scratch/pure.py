import numpy, random, collections, traceback, warnings, copy
warnings.simplefilter('ignore')
from catii import iindex, ccube, xcube, ffuncs, xfuncs
from catii.iindexes import column_stack
rng=random.Random(2); NaN=float('nan')
def snap(x):
    if isinstance(x, numpy.ndarray): return ('arr', x.dtype.str, x.shape, x.tobytes())
    if isinstance(x, iindex): return ('idx', x.shape, x.common, tuple(sorted((k, snap(v)) for k,v in dict.items(x))))
    if isinstance(x, (tuple,list)): return (type(x).__name__, tuple(snap(e) for e in x))
    if isinstance(x, dict): return ('dict', tuple(sorted((repr(k), snap(v)) for k,v in x.items())))
    return ('val', repr(x))
b=collections.Counter()
for it in range(1500):
    N=rng.choice([1,3,6]); nd=rng.choice([1,2])
    dense=[numpy.array([rng.randrange(3) for _ in range(N*c)]).reshape((N,c) if c>1 else (N,)) for c in [rng.choice([1,1,2]) for _ in range(nd)]]
    idxs=[iindex.from_array(d) for d in dense]
    K=rng.choice([None,2])
    fshape=(N,) if K is None else (N,K)
    fact=numpy.array([rng.randint(-4,4)/2 for _ in range(int(numpy.prod(fshape)))]).reshape(fshape)
    fv=numpy.array([rng.random()<0.7 for _ in range(int(numpy.prod(fshape)))]).reshape(fshape)
    junk=fact.copy(); junk[~fv]=rng.choice([NaN, 55.0])
    factarg=rng.choice([(junk,fv), numpy.where(fv,fact,NaN)])
    w=numpy.array([rng.choice([0.5,1.0,2.0]) for _ in range(N)],dtype=float); wv=numpy.array([rng.random()<0.8 for _ in range(N)])
    wj=w.copy(); wj[~wv]=rng.choice([NaN,9.0])
    warg=rng.choice([None,(wj,wv),numpy.where(wv,w,NaN),2.0])
    ign=rng.random()<0.5
    for kind in ('c','x'):
        cube=ccube(idxs) if kind=='c' else xcube(dense, interacting_shape=(3,)*nd)
        names=['count','valid_count','sum','mean']+([] if kind=='c' else ['stddev','quantile','covariance','corrcoef','min','max'])
        name=rng.choice(names)
        mod=ffuncs if kind=='c' else xfuncs
        args=(idxs if kind=='c' else dense, factarg, warg)
        before=snap(args)
        try:
            if name=='count': f=getattr(mod,('ffunc_' if kind=='c' else 'xfunc_')+name)(warg, None, ign)
            elif name=='quantile':
                if not isinstance(warg,(tuple,numpy.ndarray,type(None))): continue
                f=mod.xfunc_quantile(factarg,0.5,warg,ign)
            elif name in('min','max'):
                if K: continue
                f=getattr(mod,'xfunc_'+name)(factarg,ign)
            elif name in('corrcoef',):
                if not K: continue
                f=mod.xfunc_corrcoef(factarg,None,ign)
            elif name in('covariance','stddev'):
                if name=='covariance' and not K: continue
                if not isinstance(warg,(tuple,numpy.ndarray,type(None))): continue
                f=getattr(mod,'xfunc_'+name)(factarg,warg,ign)
            else: f=getattr(mod,('ffunc_' if kind=='c' else 'xfunc_')+name)(factarg,warg,ign)
            g=(mod.ffunc_count if kind=='c' else mod.xfunc_count)()
            r1=cube.calculate([f])[0]
            r2=cube.calculate([f])[0]
            r3=cube.calculate([g,f])[1]
            r4=cube.calculate([f,g])[0]
            cube2=ccube(idxs) if kind=='c' else xcube(dense, interacting_shape=(3,)*nd)
            r5=cube2.calculate([f])[0]
            for tag,r in (('repeat',r2),('gf',r3),('fg',r4),('othercube',r5)):
                if snap(r)!=snap(r1): b[('result-differs',kind,name,tag)]+=1
            if snap(args)!=before: b[('arg-mutated',kind,name)]+=1
        except Exception as e:
            tb=traceback.extract_tb(e.__traceback__)[-1]
            b[('EXC',kind,name,type(e).__name__,str(e)[:40],tb.lineno)]+=1
for k,v in sorted(b.items()): print(v,k)
