"""Throwaway exploration oracle (not framework code)."""
import numpy, itertools, random, traceback, warnings, sys
from catii import iindex, ccube, xcube
from catii import ffuncs, xfuncs
NaN = float('nan')

def cells(shape):
    return itertools.product(*[range(e) for e in shape])

def brute(dims, shape, agg, fact=None, fvalid=None, w=None, wvalid=None, ignore=False, N=None):
    """dims: list of 1-D int arrays. returns (values, missing) arrays of shape + (K,)"""
    if N is None: N = len(dims[0]) if dims else (len(fact) if fact is not None else None)
    K = None
    if fact is not None and fact.ndim == 2: K = fact.shape[1]
    out_shape = tuple(shape) + ((K,) if K is not None else ())
    vals = numpy.zeros(out_shape, dtype=float); miss = numpy.zeros(out_shape, dtype=bool)
    for c in cells(shape):
        rows = [r for r in range(N) if all(dims[d][r] == c[d] for d in range(len(dims)))]
        for k in ([None] if K is None else range(K)):
            idx = c if k is None else c + (k,)
            def fv(r): return fvalid[r] if k is None else fvalid[r, k]
            def fx(r): return fact[r] if k is None else fact[r, k]
            def wv(r):
                if w is None: return True
                if numpy.ndim(w) == 0: return bool(wvalid)
                return bool(wvalid[r])
            def wx(r):
                if w is None: return 1.0
                if numpy.ndim(w) == 0: return float(w)
                return float(w[r])
            if agg == 'count':
                good = [r for r in rows if wv(r)]
                v = sum(wx(r) for r in good)
            else:
                good = [r for r in rows if wv(r) and fv(r)]
                if agg == 'valid_count': v = sum(wx(r) for r in good)
                elif agg == 'sum': v = sum(wx(r) * float(fx(r)) for r in good)
                elif agg == 'mean':
                    den = sum(wx(r) for r in good)
                    v = (sum(wx(r) * float(fx(r)) for r in good) / den) if den != 0 else 0.0
            bad = len(rows) - len(good)
            m = (len(good) == 0) or ((not ignore) and bad > 0)
            if agg == 'mean' and not m and sum(wx(r) for r in good) == 0: m = True
            vals[idx] = 0.0 if m else v
            miss[idx] = m
    return vals, miss

def norm(res, fmt):
    """return (vals, miss) from a library result under format fmt in {'nan','tuple','plain'}"""
    if fmt == 'tuple':
        v, valid = res
        return numpy.where(valid, v, 0.0).astype(float), ~numpy.asarray(valid)
    v = numpy.asarray(res, dtype=float)
    if fmt == 'nan':
        m = numpy.isnan(v); return numpy.where(m, 0.0, v), m
    return v, None
