import numpy, random, traceback, warnings, sys, collections, itertools
from catii import iindex
from catii.iindexes import column_stack
warnings.simplefilter('ignore')
rng = random.Random(int(sys.argv[1]) if len(sys.argv)>1 else 1)
buckets = collections.Counter(); examples = {}
def dense_of(idx):
    out = numpy.full(idx.shape, idx.common, dtype=int)
    for coords, rowids in idx.items():
        out[(rowids.astype(int),)+tuple(coords[1:])] = coords[0]
    return out
def wellformed(idx):
    probs=[]
    try: idx.validate(True)
    except Exception as e: probs.append('validate:'+str(e)[:40].split('[')[0])
    for coords,rowids in idx.items():
        if len(coords)!=len(idx.shape): probs.append('arity')
        if len(rowids)==0: probs.append('empty-entry')
        elif rowids.max()>=idx.shape[0]: probs.append('rowid-range')
        for c,e in zip(coords[1:], idx.shape[1:]):
            if not (0<=c<e): probs.append('coord-range')
        if coords[0]==idx.common: probs.append('common-entry')
    return sorted(set(probs))
def mk(N, C=None, vals=(0,1,2,3), common=None):
    shape=(N,) if C is None else (N,C)
    a = numpy.array([rng.choice(vals) for _ in range(int(numpy.prod(shape)))],dtype=int).reshape(shape)
    if common is None:
        if a.size:
            cnt=collections.Counter(a.ravel().tolist()); common=max(cnt, key=lambda k:(cnt[k],k))
        else: common=rng.choice(vals)
    return build(a, common), a
def build(a, common):
    entries={}
    for hi in itertools.product(*[range(e) for e in a.shape[1:]]):
        col=a[(slice(None),)+hi]
        for v in sorted(set(col.tolist())):
            if v==common: continue
            entries[(int(v),)+hi]=numpy.nonzero(col==v)[0].astype(numpy.uint32)
    return iindex(entries, common, a.shape)
def rec(key, ex=None):
    buckets[key]+=1; examples.setdefault(key, ex)
nsteps=0
for it in range(int(sys.argv[2]) if len(sys.argv)>2 else 2000):
    C = rng.choice([None,None,1,2,3])
    vals = rng.choice([(0,1,2,3),(0,1),(5,7,300),(0,1,2,3,4,5,6)])
    idx, model = mk(rng.choice([0,1,2,4,7]), C, vals, common=rng.choice([None, vals[0], 9]))
    hist=[('init', model.tolist(), idx.common)]
    for step in range(rng.randint(1,8)):
        op = rng.choice(['shift','shiftv','append','update','filtered','reindexed','reindexed_default','copy','collapsed','column_stack','sliced','diff','inter'])
        N = idx.shape[0]
        try:
            if op=='shift': idx.shift_common(); chosen=True
            elif op=='shiftv': idx.shift_common(rng.choice(list(vals)+[9]))
            elif op=='append':
                o, oa = mk(rng.choice([0,1,3]), C, vals, common=rng.choice([None, vals[-1], 9]))
                ocopy = o.copy(); idx.append(o); model = numpy.concatenate([model, oa])
                if not (o==ocopy and o.shape==ocopy.shape): rec(('operand-mutated','append'))
                ph=[k for k,v in idx.items() if len(v)==0]
                if ph: rec(('KNOWN-phantom',))
                for k in ph: del idx[k]
            elif op=='update':
                if model.size==0: continue
                ent={}
                newmodel=model.copy()
                cells = set()
                for _ in range(rng.randint(1,4)):
                    r=rng.randrange(N); c=() if C is None else (rng.randrange(C),)
                    if (r,)+c in cells: continue
                    cells.add((r,)+c)
                    v=rng.choice(list(vals))
                    ent.setdefault((v,)+c, []).append(r); newmodel[(r,)+c]=v
                ent={k:numpy.array(sorted(v),dtype=numpy.uint32) for k,v in ent.items()}
                idx.update(ent); model=newmodel
            elif op=='filtered':
                mask=numpy.array([rng.random()<0.6 for _ in range(N)],dtype=bool)
                idx = idx.filtered(mask, int(mask.sum())); model=model[mask]
            elif op=='reindexed':
                mp={v:rng.choice([0,1,2,10]) for v in list(vals)+[9] if rng.random()<0.8}
                idx=idx.reindexed(mp); model=numpy.vectorize(lambda x: mp.get(x,x), otypes=[int])(model) if model.size else model
            elif op=='reindexed_default':
                listed=sorted({k[0] for k in idx})
                mp={k:i for i,k in enumerate(listed)}
                idx=idx.reindexed(); model=numpy.vectorize(lambda x: mp.get(x,x), otypes=[int])(model) if model.size else model
            elif op=='copy': idx=idx.copy()
            elif op=='collapsed':
                if C is None: continue
                prec=rng.sample(list(vals)+[9,-1], rng.randint(1,4))
                new=idx.collapsed(prec)
                exp=[]
                for row in model:
                    s=set(row.tolist()); exp.append(next((p for p in prec if p in s), prec[-1]))
                model=numpy.array(exp,dtype=int); idx=new; C=None
            elif op=='column_stack':
                o, oa = mk(N, rng.choice([None,2]), vals, common=rng.choice([None,9]))
                parts=[(idx,model),(o,oa)]
                if rng.random()<0.5: parts.reverse()
                before=[p[0].copy() for p in parts]; bc=[p[0].common for p in parts]
                new=column_stack([p[0] for p in parts], new_common=rng.choice([None,None,vals[0],9]), copy=rng.random()<0.5)
                for p,b,c0 in zip(parts,before,bc):
                    if not (p[0]==b) : rec(('operand-mutated','column_stack'))
                model=numpy.column_stack([p[1] for p in parts]) ; idx=new; C=model.shape[1]
            elif op=='sliced':
                if C is None: continue
                if rng.random()<0.5:
                    j=rng.randrange(C); idx=idx.sliced(j); model=model[:,j]; C=None
                else:
                    order=rng.sample(range(C), rng.randint(1,C)); idx=idx.sliced(order); model=model[:,order]; C=len(order)
            elif op in('diff','inter'):
                # entry-wise
                other={}
                for coords,rowids in list(idx.items()):
                    if rng.random()<0.6:
                        sub=[r for r in rowids.tolist() if rng.random()<0.5]+[r for r in range(N) if rng.random()<0.1]
                        other[coords]=numpy.array(sorted(set(sub)),dtype=numpy.uint32)
                entmodel={k:set(v.tolist()) for k,v in idx.items()}
                if op=='diff':
                    idx.difference_update(other)
                    for k,v in other.items():
                        if k in entmodel: entmodel[k]-=set(v.tolist())
                else:
                    idx.intersection_update(other)
                    entmodel={k:(entmodel[k]&set(other[k].tolist())) for k in entmodel if k in other}
                entmodel={k:v for k,v in entmodel.items() if v}
                got={k:set(v.tolist()) for k,v in idx.items() if len(v)}
                if got!=entmodel: rec(('entrywise',op), hist)
                model=dense_of(idx)
        except Exception as e:
            tb = traceback.extract_tb(e.__traceback__)[-1]
            rec(('EXC',op,type(e).__name__,str(e)[:50],'%s:%d'%(tb.filename.split('/')[-1],tb.lineno)), hist+[op]); break
        nsteps+=1
        hist.append(op)
        d=dense_of(idx)
        if d.shape!=model.shape or not numpy.array_equal(d,model):
            rec(('model',op), dict(hist=hist, got=d.tolist(), exp=model.tolist())); break
        wf=wellformed(idx)
        for p in wf: rec(('illformed',op,p), hist)
        if wf: break
        if op in('shift','append','filtered','collapsed') and idx.size:
            cnt=collections.Counter(d.ravel().tolist())
            if cnt[idx.common]!=max(cnt.values()): rec(('not-most-common',op), hist)
        # equality vs twin
        twin=build(model, idx.common)
        try:
            if not (idx==twin): rec(('neq-twin',op, tuple(wellformed(idx))), hist); break

        except Exception as e:
            rec(('EXC-eq',type(e).__name__,str(e)[:40]))
print(nsteps)
for k,v in sorted(buckets.items(), key=lambda kv:(kv[0][0],-kv[1])): print(v,k)
import pickle; pickle.dump(examples, open('ex4.pkl','wb'))
