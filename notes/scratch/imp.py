import sys, importlib.util, importlib.machinery, types, os
REPO='/repo/src'; SO='/tmp/x/bc/catii/set_operations.cpython-312-x86_64-linux-gnu.so'
# make sure no installed catii is picked: put repo first
sys.path.insert(0, REPO)
# 1. create the package module object without executing __init__ (which imports submodules)
pkg_spec = importlib.util.spec_from_file_location('catii', os.path.join(REPO,'catii','__init__.py'), submodule_search_locations=[os.path.join(REPO,'catii')])
pkg = importlib.util.module_from_spec(pkg_spec); sys.modules['catii']=pkg
# 2. preload the compiled kernel under its dotted name
spec = importlib.util.spec_from_file_location('catii.set_operations', SO)
mod = importlib.util.module_from_spec(spec); sys.modules['catii.set_operations']=mod; spec.loader.exec_module(mod); pkg.set_operations=mod
# 3. now execute the package
pkg_spec.loader.exec_module(pkg)
import catii, catii.iindexes, catii.ccubes
print(catii.__file__, catii.set_operations.__file__, catii.iindexes.union.__module__, catii.ccubes.set_intersect_merge_np.__module__)
import numpy
try: catii.ccubes.set_intersect_merge_np(numpy.array([],dtype='uint32'), numpy.array([1],dtype='uint32'))
except IndexError as e: print('bounds build active:', e)
