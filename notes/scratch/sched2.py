exec(open('sched.py').read().split("rng=random.Random(3)")[0])
import inspect, textwrap
# mutant: ffunc_count.fill_func keeps regions on self (shared across concurrently running sub-cubes)
def bad_fill_func(self, regions):
    self._regions = regions
    def _fill(x_coords, x_rowids):
        (counts,) = self._regions
        counts[x_coords] = len(x_rowids)
    return _fill
bad_fill_func.__code__ = bad_fill_func.__code__.replace(co_filename=ffuncs.__file__)
_f = bad_fill_func
SRC='''
def bad_fill_func(self, regions):
    self._regions = regions
    def _fill(x_coords, x_rowids):
        (counts,) = self._regions
        counts[x_coords] = len(x_rowids)
    return _fill
'''
ns={}; exec(compile(SRC, ffuncs.__file__, 'exec'), ns)
ffuncs.ffunc_count.fill_func = ns['bad_fill_func']
rng=random.Random(3)
N=8
a=numpy.array([[rng.randrange(3) for _ in range(6)] for _ in range(N)])
b=numpy.array([rng.randrange(2) for _ in range(N)])
ia=iindex.from_array(a); ib=iindex.from_array(b)
cube=ccube([ia,ib]); serial=cube.calculate([ffuncs.ffunc_count()])
hits=0; T=200
for trial in range(T):
    pre={rng.randrange(1,3500):rng.randrange(8) for _ in range(3)}
    pool=DetPool(4, pre)
    cc.multiprocessing=types.SimpleNamespace(pool=types.SimpleNamespace(ThreadPool=lambda n: pool))
    cube=ccube([ia,ib]); cube.parallel=True
    res=cube.calculate([ffuncs.ffunc_count()])
    if not all(x.tobytes()==y.tobytes() for x,y in zip(res,serial)): hits+=1
print("detected in", hits, "of", T, "steps", pool.steps)
# real threads with tiny switch interval
import multiprocessing.pool
cc.multiprocessing=__import__('multiprocessing'); sys.setswitchinterval(1e-6)
hits=0
for trial in range(200):
    cube=ccube([ia,ib]); cube.parallel=True; cube.poolsize=4
    res=cube.calculate([ffuncs.ffunc_count()])
    if not all(x.tobytes()==y.tobytes() for x,y in zip(res,serial)): hits+=1
print("real threads detected", hits, "of 200")
