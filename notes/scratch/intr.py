import numpy, random, time
from catii import iindex, ccube, xcube, ffuncs, xfuncs
rng=random.Random(1)
N=6
a=numpy.array([[rng.randrange(3) for _ in range(5)] for _ in range(N)]); b=numpy.array([rng.randrange(2) for _ in range(N)])
class E(Exception): pass
for kind in 'cx':
    for par in (False, True):
        for S in ([0],[2],[4],[1,3],[0,1,2,3,4],[]):
            cube = ccube([iindex.from_array(a), iindex.from_array(b)]) if kind=='c' else xcube([a,b])
            cube.parallel=par
            f = ffuncs.ffunc_count() if kind=='c' else xfuncs.xfunc_count()
            calls=[0]; raised=[]
            def cb():
                i=calls[0]; calls[0]+=1
                if i in S:
                    e=E(i); raised.append(e); raise e
            cube.check_interrupt=cb
            t=time.time()
            try:
                r=cube.calculate([f]); out='returned'
            except E as e: out='raised %s in-raised=%s'%(e.args, any(e is x for x in raised))
            n1=calls[0]
            cube.check_interrupt=lambda: calls.__setitem__(0, calls[0]+1)
            r2=cube.calculate([f])[0]
            fresh=(ccube([iindex.from_array(a), iindex.from_array(b)]).count() if kind=='c' else xcube([a,b]).count())
            print(kind, par, S, out, 'calls', n1, 'then', calls[0]-n1, 'equal', r2.tobytes()==fresh.tobytes(), round(time.time()-t,3))
