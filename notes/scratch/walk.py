import numpy, random, itertools, collections
from catii import iindex, ccube
rng=random.Random(5)
def build(a, common):
    entries={}
    for v in sorted(set(a.tolist())):
        if v==common: continue
        entries[(int(v),)]=numpy.nonzero(a==v)[0].astype(numpy.uint32)
    return iindex(entries, common, a.shape)
bad=0; n=0
for it in range(3000):
    nd=rng.randint(1,4); N=rng.choice([0,1,3,6,10])
    dense=[numpy.array([rng.randrange(rng.randint(1,4)) for _ in range(N)],dtype=int) for _ in range(nd)]
    commons=[rng.randrange(5) for _ in range(nd)]
    dims=[build(d,c) for d,c in zip(dense,commons)]
    got=collections.Counter((c, tuple(r.tolist())) for c,r in ccube(dims).interactions())
    exp=collections.Counter()
    choices=[sorted(set(d.tolist())-{c})+[-1] for d,c in zip(dense,commons)]
    for c in itertools.product(*choices):
        if all(x==-1 for x in c): continue
        rows=tuple(r for r in range(N) if all(c[i]==-1 or dense[i][r]==c[i] for i in range(nd)))
        if rows: exp[(c,rows)]+=1
    n+=1
    if got!=exp:
        bad+=1
        if bad<3: print(dense,commons, got-exp, exp-got)
print(n,bad)
