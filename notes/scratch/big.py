import numpy, tempfile, struct, os, warnings
from catii.indxio import IndxIO
class Fake:
    dtype=numpy.dtype(numpy.uint32)
    def __init__(self,n): self.n=n
    def __len__(self): return self.n
    def tofile(self,f): f.seek(self.n*4, 1)
for lens in ([2**30-1], [2**30], [2**29, 2**29], [2**31, 2**31], [2**32-1, 5]):
    entries={(i+1,):Fake(n) for i,n in enumerate(lens)}
    with tempfile.TemporaryFile(dir='/tmp/x') as f:
        try:
            IndxIO.save(f, entries, 0, numpy.dtype(numpy.uint32))
            pos=f.tell(); f.seek(8); sz=struct.unpack('<Q', f.read(8))[0]
            print(lens, 'ok', pos, sz, pos==16+sz)
        except Exception as e:
            pos=f.tell(); f.seek(8); sz=struct.unpack('<Q', f.read(8))[0]
            print(lens, 'EXC', type(e).__name__, e, pos, sz)
