import numpy, random, collections, traceback, sys, resource
resource.setrlimit(resource.RLIMIT_AS, (4<<30, 4<<30))
from catii import iindex
rng=random.Random(int(sys.argv[1])); b=collections.Counter(); ex={}
PALETTES=[list(range(6)), list(range(-3,4)), [254,255,256,257], [65535,65536,3,70000], [2**31-1,2**31,2**31+1,5], [-2**31-1,-1,7,-2**31], [2**62,-2**62,0,2**62+5,-2**63], list(range(12)), [2**32-1,2**32,1], [-128,-129,127,128]]
def gen():
    pal=rng.choice(PALETTES); cls=rng.choice(['small','dense','sparse']); ndim=rng.choice([1,1,2])
    if cls=='sparse':
        if len(pal)<6: pal=pal+[p+1000 for p in pal]+[17,18]
        D=rng.randint(5,min(12,len(pal))); vals=rng.sample(pal,D); common=vals[0]
        U=rng.randint(D-1,D+3); N=rng.randint(100*U//D+1,100*U//D+60); C=1 if ndim==1 else rng.randint(1,3)
        a=[common]*(N*C)
        for i,p in enumerate(rng.sample(range(N*C),U)): a[p]=vals[1+i%(D-1)]
        a=numpy.array(a,dtype=numpy.int64).reshape((N,) if ndim==1 else (N,C))
    else:
        N=rng.randint(0,12 if cls=='small' else 40); C=1 if ndim==1 else rng.randint(0,3)
        k=rng.randint(1,min(4,len(pal))) if cls=='small' else min(len(pal), rng.randint(5,12)) 
        vals=rng.sample(pal,k)
        wts=[rng.choice([1,1,5,20]) for _ in vals]
        a=numpy.array(rng.choices(vals,weights=wts,k=N*C),dtype=numpy.int64).reshape((N,) if ndim==1 else (N,C))
    return a, pal
for it in range(int(sys.argv[2])):
    a,pal=gen(); present=sorted(set(a.ravel().tolist()))
    kw={}
    cm=rng.choice(['omit','present','absent'])
    if cm=='present' and present: kw['common']=rng.choice(present)
    elif cm=='absent' or (not present): kw['common']=rng.choice([v for v in pal+[max(pal)+1, 99] if v not in present])
    if rng.random()<0.3: kw['counts']={int(v):int((a==v).sum()) for v in present}
    mp=None; mk=rng.choice(['none','none','inj','m2o','allone'])
    dom=set(present)|({kw['common']} if 'common' in kw else set())
    if mk=='inj':
        tg=rng.sample(range(-5,300), len(dom)); mp=dict(zip(sorted(dom),tg))
    elif mk=='m2o': mp={v:rng.choice([0,1,2,-1,300]) for v in dom}
    elif mk=='allone': mp={v:7 for v in dom}
    if mp is not None: kw['mapping']=mp
    exp=a if mp is None else (numpy.vectorize(lambda x: mp[x],otypes=[numpy.int64])(a) if a.size else a)
    back=rng.choice(['default','int64','mapping'])
    sig=(cm,mk,'counts' in kw,back, a.ndim)
    try:
        idx=iindex.from_array(a, **kw)
        idx.validate(True)
        for c,r in idx.items():
            if len(r)==0 or c[0]==idx.common or (len(r) and r.max()>=a.shape[0]): raise AssertionError('illformed %s'%(c,))
        if back=='default': out=idx.to_array()
        elif back=='int64': out=idx.to_array(dtype=numpy.int64)
        else:
            vals2=sorted(set(exp.ravel().tolist())|{idx.common}); m2={v:i*3-4 for i,v in enumerate(vals2)}
            out=idx.to_array(mapping=m2); exp=numpy.vectorize(lambda x:m2[x],otypes=[numpy.int64])(exp) if exp.size else exp
        if out.shape!=a.shape or not numpy.array_equal(out.astype(object), exp.astype(object)): 
            b[('MISMATCH',)+sig]+=1; ex.setdefault(('MISMATCH',)+sig,(a.tolist()[:20],kw,out.tolist()[:20]))
    except BaseException as e:
        tb=traceback.extract_tb(e.__traceback__)[-1]
        key=('EXC',type(e).__name__,str(e)[:50],tb.lineno)+sig; b[key]+=1; ex.setdefault(key,(a.tolist()[:20],{k:v for k,v in kw.items()}))
for k,v in sorted(b.items(),key=lambda kv:-kv[1])[:25]: print(v,k)
for k,v in list(ex.items())[:6]: print(k, str(v)[:400])
