import numpy, random, traceback, warnings, sys, collections, itertools
from orc import *
warnings.simplefilter('ignore')
rng = random.Random(int(sys.argv[1]) if len(sys.argv)>1 else 1)
buckets = collections.Counter(); examples = {}
def mk_index(dense, common):
    """dense: (N, ...) int array -> iindex with given common, any ndim"""
    entries = {}
    N = dense.shape[0]
    for hi in itertools.product(*[range(e) for e in dense.shape[1:]]):
        col = dense[(slice(None),)+hi]
        for v in set(col.tolist()):
            if v == common: continue
            entries[(int(v),)+hi] = numpy.nonzero(col==v)[0].astype(numpy.uint32)
    return iindex(entries, common, dense.shape)
ncase=0
for it in range(int(sys.argv[2]) if len(sys.argv)>2 else 1500):
    nd = rng.choice([1,2,2,3])
    N = rng.choice([0,1,2,3,5,8])
    exts = [rng.randint(1,3) for _ in range(nd)]
    extra = [tuple(rng.randint(1,3) for _ in range(rng.choice([0,1,1,2]))) for _ in range(nd)]
    if all(len(e)==0 for e in extra): extra[rng.randrange(nd)] = (rng.randint(2,4),)
    dense = [numpy.array([rng.randrange(e) for _ in range(N*int(numpy.prod(x)) )], dtype=int).reshape((N,)+x) for e,x in zip(exts,extra)]
    commons = [rng.randrange(e) for e in exts]
    infer = rng.random()<0.3
    agg = rng.choice(['count','sum','mean','valid_count'])
    K = rng.choice([None,None,2])
    fact=fvalid=factarg=None
    if agg!='count':
        fshape=(N,) if K is None else (N,K)
        fact = numpy.array([rng.randint(-8,8)/2 for _ in range(int(numpy.prod(fshape)))]).reshape(fshape)
        fvalid = numpy.array([rng.random()<0.8 for _ in range(int(numpy.prod(fshape)))],dtype=bool).reshape(fshape)
        f2=fact.copy(); f2[~fvalid]=NaN; factarg=f2
    ignore = rng.random()<0.5
    idxs=[mk_index(d,c) for d,c in zip(dense,commons)]
    shape = tuple(exts)
    scaffold = tuple(e for x in extra for e in x)
    for kind in ('ccube','xcube'):
        try:
            if kind=='ccube':
                cube = ccube(idxs) if infer else ccube(idxs, interacting_shape=shape)
            else:
                dd = [d.astype(rng.choice(['int64','uint8','int8','uint16'])) for d in dense]
                cube = xcube(dd) if infer else xcube(dd, interacting_shape=shape)
            ishape = tuple(int(e) for e in cube.interacting_shape)
            if agg=='count': res = cube.count(ignore_missing=ignore)
            else: res = getattr(cube, agg)(factarg, ignore_missing=ignore)
            v,m = norm(res,'nan')
            expshape = scaffold + ishape + ((K,) if (K and agg!='count') else ())
            if v.shape != expshape:
                key=(kind,'shape', 'infer' if infer else 'expl'); buckets[key]+=1; examples.setdefault(key,(v.shape,expshape)); continue
            bad=False
            for pos in itertools.product(*[range(e) for e in scaffold]):
                p=list(pos); sl=[]
                for d,x in zip(dense,extra):
                    hi=tuple(p[:len(x)]); p=p[len(x):]
                    sl.append(d[(slice(None),)+hi])
                ev,em = brute(sl, ishape, agg, fact, fvalid, None, None, ignore, N=N)
                if not (numpy.array_equal(m[pos], em) and numpy.allclose(v[pos], ev)): bad=True
            if bad:
                key=(kind,'block',agg,'infer' if infer else 'expl'); buckets[key]+=1; examples.setdefault(key, dict(dense=[d.tolist() for d in dense], commons=commons))
        except Exception as e:
            tb = traceback.extract_tb(e.__traceback__)[-1]
            key = (kind, 'EXC', type(e).__name__, str(e)[:60], '%s:%d'%(tb.filename.split('/')[-1], tb.lineno), 'infer' if infer else 'expl', 'N0' if N==0 else 'N+')
            buckets[key]+=1
    ncase+=1
print(ncase)
for k,v in sorted(buckets.items(), key=lambda kv:(kv[0][0],-kv[1])): print(v,k)
