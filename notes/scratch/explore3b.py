import numpy, random, traceback, warnings, sys, collections, itertools, math
from orc import *
warnings.simplefilter('ignore')
rng = random.Random(int(sys.argv[1]) if len(sys.argv)>1 else 1)
buckets = collections.Counter(); examples = {}
ncase=0
def rec(key, ex):
    buckets[key]+=1; examples.setdefault(key, ex)
for it in range(int(sys.argv[2]) if len(sys.argv)>2 else 3000):
    nd = rng.choice([0,1,1,2])
    N = rng.choice([0,1,2,3,5,8,12])
    shape = tuple(rng.randint(1,3) for _ in range(nd))
    dense = [numpy.array([rng.randrange(e) for _ in range(N)], dtype=int) for e in shape]
    stat = rng.choice(['stddev','quantile','min','max','covariance','corrcoef'])
    ignore = rng.random()<0.5
    if stat in ('min','max'): K=None
    elif stat in ('covariance','corrcoef'): K=rng.choice([2,3])
    else: K = rng.choice([None,None,2])
    fshape=(N,) if K is None else (N,K)
    n = int(numpy.prod(fshape))
    fact = numpy.array([rng.randint(-12,12)/2 for _ in range(n)]).reshape(fshape)
    fvalid = numpy.array([rng.random()<0.8 for _ in range(n)],dtype=bool).reshape(fshape)
    if rng.random()<0.5:
        f2=fact.copy(); f2[~fvalid]=NaN; factarg=f2
    elif rng.random()<0.5:
        fact=numpy.round(fact).astype(numpy.int64); f2=fact.copy(); f2[~fvalid]=77; factarg=(f2,fvalid.copy())
        if rng.random()<0.3: factarg=(f2.tolist(), fvalid.tolist())
    else:
        f2=fact.copy(); f2[~fvalid]=rng.choice([NaN,100.0]); factarg=(f2,fvalid.copy())
    wform = rng.choice(['none','none','arr','tuple','inttuple']) if stat in ('stddev','quantile','covariance') else 'none'
    w=wvalid=warg=None
    if wform=='scalar':
        w = rng.choice([0.5,1.0,2.0]); wvalid=True; warg=w
    elif wform=='inttuple':
        w = numpy.array([rng.choice([0,1,2,3]) for _ in range(N)],dtype=numpy.int64); wvalid=numpy.array([rng.random()<0.85 for _ in range(N)],dtype=bool)
        warg=(w.copy(), wvalid.copy()); w=w.astype(float)
    elif wform in('arr','tuple'):
        w = numpy.array([rng.choice([0.25,0.5,1.0,2.0,3.0]) for _ in range(N)])
        wvalid = numpy.array([rng.random()<0.85 for _ in range(N)],dtype=bool)
        if wform=='arr': w2=w.copy(); w2[~wvalid]=NaN; warg=w2
        else: w2=w.copy(); w2[~wvalid]=rng.choice([NaN,7.0]); warg=(w2,wvalid.copy())
    fmt = rng.choice(['nan','tuple'])
    rma = NaN if fmt=='nan' else (rng.choice([0,-1]),False)
    p = rng.choice([0,0.25,0.5,0.9,1.0, rng.random()])
    sig=(stat,wform,'K%s'%K,'ign' if ignore else 'prop',fmt, 'nd%d'%nd)
    try:
        cube = xcube(dense, interacting_shape=shape)
        if stat=='quantile': res = cube.quantile(factarg, p, warg, ignore_missing=ignore, return_missing_as=rma)
        elif stat in('min','max'): res = getattr(cube,stat)(factarg, ignore_missing=ignore, return_missing_as=rma)
        else: res = getattr(cube,stat)(factarg, warg, ignore_missing=ignore, return_missing_as=rma)
        if fmt=='tuple':
            v,valid = res; v=numpy.asarray(v,dtype=float); m=~numpy.asarray(valid)
            nan_in_valid = numpy.isnan(v) & ~m
        else:
            v=numpy.asarray(res,dtype=float); m=numpy.isnan(v); nan_in_valid=None
    except Exception as e:
        tb = traceback.extract_tb(e.__traceback__)[-1]
        rec(('EXC',type(e).__name__,str(e)[:60],'%s:%d'%(tb.filename.split('/')[-1],tb.lineno))+sig[:4]+('N0' if N==0 else 'N+',sig[5]), None)
        continue
    ncase+=1
    oshape = tuple(shape) if nd else (1,)
    tail = () if K is None else ((K,) if stat in('stddev','quantile') else (K,K))
    if nd==0:
        v = v.reshape((1,)+tail) if v.size==int(numpy.prod((1,)+tail)) else v
        m = m.reshape(v.shape)
        if nan_in_valid is not None: nan_in_valid = nan_in_valid.reshape(v.shape)
    if v.shape != oshape+tail:
        rec(('shape',)+sig, (v.shape,oshape+tail)); continue
    for c in itertools.product(*[range(e) for e in oshape]):
        rows=[r for r in range(N) if all(dense[d][r]==c[d] for d in range(nd))]
        def wv(r): return True if w is None else (bool(wvalid) if numpy.ndim(w)==0 else bool(wvalid[r]))
        def wx(r): return 1.0 if w is None else (float(w) if numpy.ndim(w)==0 else float(w[r]))
        if stat in('stddev','quantile','min','max'):
            for k in ([None] if K is None else range(K)):
                fx=lambda r: fact[r] if k is None else fact[r,k]
                fv=lambda r: fvalid[r] if k is None else fvalid[r,k]
                good=[r for r in rows if fv(r) and wv(r)]
                bad=len(rows)-len(good)
                em = len(good)==0 or (not ignore and bad>0)
                ix = c if k is None else c+(k,)
                if w is not None and good and sum(wx(r) for r in good)==0 and stat in('stddev','quantile'): continue
                if stat=='stddev':
                    if len(good)<2: em=True
                    if not em:
                        xs=numpy.array([fx(r) for r in good]); ws=numpy.array([wx(r) for r in good])
                        if w is None: ev=xs.std(ddof=1)
                        else:
                            mu=(ws*xs).sum()/ws.sum(); ev=math.sqrt((ws*(xs-mu)**2).sum()/ws.sum()*len(good)/(len(good)-1))
                elif stat in('min','max'):
                    if not em: ev = (min if stat=='min' else max)(fx(r) for r in good)
                else:
                    if not em:
                        xs=numpy.array([fx(r) for r in good])
                        if w is None or wform=='scalar' and False: ev=numpy.quantile(xs,p)
                        else: ev=None; lo,hi=xs.min(),xs.max()
                if bool(m[ix])!=em: rec(('missing',)+sig+('em=%s'%em, 'ngood=%d'%min(len(good),2), 'bad=%d'%min(bad,1)), dict(c=c,rows=rows,dense=[d.tolist() for d in dense],fact=factarg,w=warg,p=p,got=res))
                elif nan_in_valid is not None and nan_in_valid[ix]: rec(('nan-in-valid',)+sig,None)
                elif not em:
                    if ev is None:
                        if not (lo-1e-9<=v[ix]<=hi+1e-9): rec(('range',)+sig, dict(c=c,rows=rows,fact=factarg,w=warg,p=p,got=res))
                    elif not math.isclose(v[ix],ev,rel_tol=1e-9,abs_tol=1e-9): rec(('value',)+sig, dict(c=c,rows=rows,dense=[d.tolist() for d in dense],fact=factarg,w=warg,p=p,got=v[ix],exp=ev))
        else:
            # cov/corrcoef
            for i in range(K):
                for j in range(K):
                    if ignore:
                        good=[r for r in rows if fvalid[r].all() and wv(r)]; em=len(good)==0
                    else:
                        good=[r for r in rows if fvalid[r,i] and fvalid[r,j] and wv(r)]
                        em = len(good)==0 or len(good)<len(rows)
                    ix=c+(i,j)
                    if len(good)<2: continue
                    if w is not None and sum(wx(r) for r in good)==0: continue
                    if stat=='corrcoef':
                        Xg=numpy.array([fact[r] for r in good],dtype=float)
                        if Xg[:,i].std()==0 or Xg[:,j].std()==0: continue
                    if bool(m[ix])!=em:
                        rec(('missing',)+sig+('em=%s'%em,), dict(c=c,rows=rows,fact=factarg,w=warg,got=res)); continue
                    if em: continue
                    X=numpy.array([fact[r] for r in good]); ws=None if w is None else numpy.array([wx(r) for r in good])
                    if stat=='covariance':
                        ev=numpy.cov(X[:,[i,j]].T, aweights=ws)[0,1]
                    else:
                        if X[:,i].std()==0 or X[:,j].std()==0: continue
                        ev=numpy.corrcoef(X[:,[i,j]],rowvar=False)[0,1]
                    if not math.isclose(v[ix],ev,rel_tol=1e-9,abs_tol=1e-9): rec(('value',)+sig, dict(c=c,rows=rows,fact=factarg,w=warg,got=v[ix],exp=ev))
print(ncase)
for k,vv in sorted(buckets.items(), key=lambda kv:(kv[0][1] if len(kv[0])>1 else '',kv[0][0],-kv[1])): print(vv,k)
import pickle; pickle.dump(examples, open('ex3.pkl','wb'))
