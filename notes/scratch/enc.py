import numpy, struct, tempfile, itertools, traceback
from catii.indxio import IndxIO
FMT={1:'<B',2:'<H',4:'<L',8:'<Q'}
def ref_encode(entries_list, common, iw, rw, dims=None):
    # entries_list: list of (coords tuple, rowid list)
    if dims is None: dims = len(entries_list[0][0]) if entries_list else 0
    body = struct.pack('<B', dims) + struct.pack('<L', len(entries_list)) + struct.pack('<B', iw) + struct.pack(FMT[iw], common)
    for coords,_ in entries_list:
        for c in coords: body += struct.pack(FMT[iw], c)
    body += struct.pack('<B', rw)
    for _,rows in entries_list: body += struct.pack(FMT[rw], len(rows))
    for _,rows in entries_list:
        for r in rows: body += struct.pack(FMT[rw], r)
    return b'INDX0001' + struct.pack('<Q', len(body)) + body
def narrow(m): return 1 if m<256 else 2 if m<65536 else 4 if m<2**32 else 8
ents=[((1,0),[0,3,200]),((2,1),[]),((300,2),[5])]
common=7
# library bytes vs reference
with tempfile.TemporaryFile() as f:
    IndxIO.save(f, {k:numpy.array(v,dtype=numpy.uint32) for k,v in ents}, common, numpy.dtype(numpy.uint32))
    f.seek(0); raw=f.read()
print(raw==ref_encode(ents, common, narrow(300), 4))
for iw,rw in itertools.product([2,4,8],[1,2,4,8]):
    data=ref_encode(ents, common, iw, rw)
    with tempfile.TemporaryFile() as f:
        f.write(data); f.flush(); f.seek(0)
        try:
            e,c,d=IndxIO.load(f)
            ok = c==common and {k:v.tolist() for k,v in e.items()}=={k:v for k,v in ents} and all(v.dtype==numpy.uint32 for v in e.values())
            print(iw,rw,ok,d)
        except Exception as ex: print(iw,rw,'EXC',type(ex).__name__,ex)
