#!/venv/bin/python
"""tools/mut.py FILE OLD NEW [K] -- CHECK ARGS...
Copy /repo/src/catii to a scratch dir, replace the K-th (0-based, default 0; 'all') occurrence of OLD by NEW in
FILE, run ./check with CATII_REPO pointing there, remove the scratch dir. Several FILE OLD NEW K groups may be
chained with '+'."""
import os, shutil, subprocess, sys, tempfile

args = sys.argv[1:]
i = args.index("--")
spec, rest = args[:i], args[i + 1:]
groups, cur = [], []
for a in spec:
    if a == "+":
        groups.append(cur); cur = []
    else:
        cur.append(a)
groups.append(cur)
d = tempfile.mkdtemp(prefix="mut.", dir="/tmp")
try:
    os.makedirs(os.path.join(d, "src"))
    shutil.copytree("/repo/src/catii", os.path.join(d, "src", "catii"),
                    ignore=shutil.ignore_patterns("*.so", "*.c", "__pycache__"))
    for g in groups:
        f, old, new = g[:3]
        k = g[3] if len(g) > 3 else "0"
        p = os.path.join(d, "src", "catii", f)
        s = open(p).read()
        old = old.encode().decode("unicode_escape"); new = new.encode().decode("unicode_escape")
        n = s.count(old)
        if n == 0:
            print("MUTATION: pattern not found in", f); sys.exit(3)
        if k == "all":
            s = s.replace(old, new)
        else:
            k = int(k)
            if k >= n:
                print("MUTATION: only %d occurrences" % n); sys.exit(3)
            parts = s.split(old)
            s = old.join(parts[:k + 1]) + new + old.join(parts[k + 1:])
        open(p, "w").write(s)
    env = dict(os.environ, CATII_REPO=d)
    r = subprocess.run(["/verif/check"] + rest, env=env)
    sys.exit(r.returncode)
finally:
    shutil.rmtree(d, ignore_errors=True)
