#!/venv/bin/python
"""Run the repository's pinned test command and compare with /root/.vp/BASELINE.json stable_pass."""
import json, os, subprocess, sys, tempfile
import xml.etree.ElementTree as ET

base = json.load(open("/root/.vp/BASELINE.json"))
fd, out = tempfile.mkstemp(suffix=".xml"); os.close(fd)
subprocess.run("cd /repo && CYTHONIZE_SETUP_PY=1 /venv/bin/python setup.py -q build_ext --inplace >/dev/null 2>&1", shell=True)
cmd = base["cmd"].replace("<file>", out)
r = subprocess.run(cmd, shell=True, capture_output=True, text=True)
passed = set()
for tc in ET.parse(out).getroot().iter("testcase"):
    if not any(ch.tag in ("failure", "error", "skipped") for ch in tc):
        passed.add("%s::%s" % (tc.get("classname"), tc.get("name")))
os.remove(out)
want = set(base["stable_pass"])
missing = sorted(want - passed)
print("passed now: %d; stable_pass: %d; stable_pass tests not passing now: %d" % (len(passed), len(want), len(missing)))
for m in missing[:20]:
    print("  MISSING", m)
sys.exit(1 if missing else 0)
