#!/bin/bash
# tools/seeded_regress.sh [pattern]  - run every stored seeded change against the check of the property it breaks
# (scratch copy of /repo/src with the patch applied; nothing is written to evidence/). One line per change.
cd "$(dirname "$0")/.."
for d in seeded/${1:-*}/; do
  id=$(basename $d); prop=${id%%-*}
  s=$(date +%s)
  out=$(tools/mutant.sh "$PWD/$d/patch.diff" -- $prop 2>&1)
  e=$(date +%s)
  if echo "$out" | grep -q "VIOLATION property=$prop"; then r=DETECTED; elif echo "$out" | grep -q "patch failed\|DID NOT"; then r=PATCH-PROBLEM; else r=MISSED; fi
  echo "$id $r $((e-s))s $(echo "$out" | grep -E 'violation\(s\)' | head -1 | cut -c1-90)"
done
