#!/venv/bin/python
"""Regenerate MANIFEST.json from the table below (run from /verif)."""
import json
import os
import sys

HERE = os.path.dirname(os.path.dirname(os.path.abspath(__file__)))

# id -> (category, technique, text, note, design_ref)
CLAIMS = {}


def claim(pid, category, technique, text, note, ref):
    CLAIMS[pid] = (category, technique, text, note, ref)


claim(
    "C19", "exploration",
    "exhaustive grid enumeration over the implementation's own thresholds + Hypothesis integers, numpy.iinfo oracle; the same oracle on to_array() default dtypes and INDX coordinate words",
    "Every (max, min) pair of a grid built from all powers of two +-1 and the integer constants harvested "
    "from the current fit_dtype code object is compared with the narrowest sufficient dtype derived from "
    "numpy.iinfo; Hypothesis integers probe cell interiors. The grid is complete for the partition the "
    "property names, the integers are unbounded, hence exploration.",
    "numpy.iinfo is the ground truth for dtype ranges; constants are harvested from the code object of the "
    "working tree's fit_dtype (a threshold computed at run time from non-constant data would not be harvested, "
    "the powers-of-two refinement still applies).",
    "DESIGN.md section 3, C19",
)

claim(
    "C08", "exploration",
    "bounded exhaustive enumeration of operand pairs / tuples (incl. lopsided operand sizes and all memory layouts) + Hypothesis gap-encoded arrays + Atheris campaign, Python set-algebra oracle",
    "Every ordered pair of subsets of three 7-value (quick) / 10-value (thorough) universes, including both ends of "
    "the uint32 range, is run through all three kernels and compared with Python set algebra; multi-way unions are "
    "enumerated over all 3- and 4-tuples of subsets; Hypothesis adds long arrays with explicit overlap patterns, memory "
    "layouts, None operands and copy flags. Small-scope complete, unbounded in general: exploration.",
    "Python's set type is the reference; the kernels are rebuilt from the working tree's .pyx for every run.",
    "DESIGN.md section 3, C08",
)
claim(
    "C09", "exploration",
    "the C08 input enumeration (all operand layouts incl. negative strides, lopsided sizes) executed under two observers: bounds-checked Cython rebuild (in-process IndexError) and clang AddressSanitizer build (child process), plus an Atheris campaign on the ASan build",
    "Out-of-range accesses depend on which operand runs out first, so the deciding step is the generated / enumerated "
    "input search of C08 (every exhaustion position for up to 7 (quick) / 10 (thorough) elements per side); the bounds-checked "
    "rebuild turns any out-of-range memoryview index into an exception, the ASan build of the unmodified source guards "
    "against the transform hiding something.",
    "Bounds build = text transform of boundscheck(False) directives; ASan detects overruns within its redzones; "
    "raw-pointer arithmetic added by a change would only be seen by ASan.",
    "DESIGN.md section 3, C09",
)

claim(
    "C10", "exploration",
    "Hypothesis-generated entries dicts across all word-size classes and array layouts, save -> load round trip through a real file; the same round trip for every index the C06 state machine produces; Atheris campaign",
    "Random entries dicts (arity 1..4, coordinates and common drawn independently from the four word-size classes and "
    "their boundaries, row ids up to 2^32-1, empty arrays, no entries) are saved and loaded back; every component "
    "(common, key tuples and their element types, arrays, dtype) is compared and the index is rebuilt and validated.",
    "Round trip through the library's own reader: symmetric encoder/decoder errors are C11's job.",
    "DESIGN.md section 3, C10",
)
claim(
    "C11", "exploration",
    "differential testing against an independent INDX encoder/decoder written from the format docstring, both directions (every legal word-size combination, totals beyond what narrow words can count), duck-typed size probes, Atheris campaign incl. raw-bytes mode",
    "Bytes written by save are decoded by an independent decoder and re-encoded by an independent encoder and must match "
    "byte for byte; the library's loader is fed files produced by the independent encoder with every legal word-size "
    "combination (including ones the saver never chooses); payload-size arithmetic is probed across 2^30 and 2^32 with "
    "duck-typed arrays whose tofile() seeks.",
    "The IndxIO class docstring is the specification; entry order is free. Size probes do not materialise data.",
    "DESIGN.md section 3, C11",
)
claim(
    "C12", "fault_enumeration",
    "exhaustive cut-point enumeration (every prefix length of every generated file, written by save or laid out by the independent encoder in any documented word size) with 'load must raise' oracle",
    "For every generated file, every strict prefix (all k in [0, len)) is materialised by truncating the real file and "
    "loaded; any return is a violation. The fault space per file is enumerated completely; files are sampled by Hypothesis.",
    "Fault model = the file is a strict prefix of the intended bytes (as the property states).",
    "DESIGN.md section 3, C12",
)

claim(
    "C02", "exploration",
    "Hypothesis-generated index cubes (0..4 dims, 1..3 axes, any common, inferred/exact/padded shape, boundary extents) vs a pure-Python per-row group-by",
    "Random dimension lists built by an independent index constructor are counted by ccube and compared cell by cell "
    "(values, missing cells, block sums) with a brute-force contingency table; a quarter of the cubes have 4 dimensions "
    "so that nested margin differencing is exercised.",
    "Indexes come from vfw.cubes.build_index; explicit shapes cover data and common value.",
    "DESIGN.md section 3, C02",
)
claim(
    "C03", "exploration",
    "three-way differential testing: ccube vs xcube vs brute-force group-by over generated facts / weights / policies",
    "Random cubes x {count, valid_count, sum, mean} x fact forms x weight forms x policies x report formats are evaluated by "
    "the index cube, by the array cube on the dense data in a drawn integer dtype, and by a pure-Python per-cell "
    "computation with math.fsum; missing cells compared exactly, values to 1e-12 (exact dyadic mode) or 1e-9 x total.",
    "Dyadic facts/weights make all sums exact so that any difference is a real one; rough floats use the property's tolerance.",
    "DESIGN.md section 3, C03",
)
claim(
    "C04", "exploration",
    "generated cubes evaluated under both policies x three report formats x both cube types, rule oracle + cross-format agreement",
    "Every generated case is evaluated 12 times (2 policies x 3 formats x 2 cube types); the missing sets of the NaN and "
    "pair formats are compared with the brute-force rule and all formats must agree on missing cells and values.",
    "valid_count + plain value + propagate is excluded as the property states.",
    "DESIGN.md section 3, C04",
)
claim(
    "C05", "exploration",
    "metamorphic testing: exhaustive re-encoding of every dimension with every possible common value per generated cube",
    "For each generated cube and aggregate call, every dimension is re-encoded with every category 0..extent as common "
    "(built directly, via shift_common(v), and re-normalised) and the output must not change.",
    "Pure metamorphic relation (no reference model); explicit shapes are enlarged to cover the new common value.",
    "DESIGN.md section 3, C05",
)
claim(
    "C13", "exploration",
    "metamorphic testing: every extra-axis block of a generated multi-axis cube vs the cube of the one-axis slices",
    "Cubes with 2- and 3-axis dimensions of pairwise different extra extents are evaluated on both cube types; the result "
    "shape and every block result[j1..jm] are compared with the cube built from the corresponding one-axis slices.",
    "Slices are rebuilt by the independent constructor, not by iindex.sliced().",
    "DESIGN.md section 3, C13",
)
claim(
    "C14", "exploration",
    "generated one-axis dimension lists; multiset of delivered (coords, rowids) vs a row-scan oracle",
    "The (coordinates, row ids) pairs handed to callbacks by walk (one callback, several callbacks, interactions()) are "
    "compared as a multiset with the set computed by scanning rows.",
    "Dimensions are one-axis indexes as the property states.",
    "DESIGN.md section 3, C14",
)
claim(
    "C17", "exploration",
    "generated cubes with shared argument objects: deep before/after snapshots, permutation / repetition / re-use relations",
    "Lists of 2..4 aggregate-function objects sharing one fact and one weight object are computed together (permuted), "
    "repeated, re-used on a second cube and alone; results must coincide and every argument must be byte-identical afterwards.",
    "Snapshots compare dtype, shape and bytes; dict order is ignored.",
    "DESIGN.md section 3, C17",
)
claim(
    "C18", "exploration",
    "generated array cubes vs per-cell textbook statistics written out in pure Python; metamorphic weight rescaling for weighted quantiles",
    "stddev, quantile, min, max, covariance and correlation are compared cell by cell with explicit formulas over the rows "
    "of the cell; weighted quantiles are checked by their missing rule, bounds and invariance under rescaling of weights; "
    "both report formats must agree and valid cells must be finite.",
    "Mathematically undefined entries (fewer than 2 usable rows, zero variance, zero weight sum) are not compared.",
    "DESIGN.md section 3, C18",
)

claim(
    "C01", "exploration",
    "Hypothesis-generated arrays constructed to select each construction strategy, from_array -> to_array round trip + independent dense reader",
    "Integer arrays of three shape classes (few values, many values dense, many values sparse -> per-row scan) over "
    "palettes straddling every dtype boundary and negatives are converted with every option combination (common, counts, "
    "mapping kinds, back-conversion dtype or mapping) and compared element for element; the index itself is checked with the "
    "well-formedness predicate and an independent dense reader so that to_array cannot mask from_array.",
    "Workers run under RLIMIT_AS so giant allocations surface as MemoryError; arrays with more than 2^31 elements are out of reach.",
    "DESIGN.md section 3, C01",
)
claim(
    "C06", "exploration",
    "Hypothesis rule-based state machine with a dense NumPy reference model, invariant after every step",
    "Random histories of all index operations over several live indexes are applied to the real indexes and to dense NumPy "
    "models; after every step each index must stand for its model (independent reader), other operands must be "
    "byte-identical and requested copies must not share storage. Failing histories shrink to a short operation list that "
    "is replayed without Hypothesis.",
    "Operations are drawn with knowledge of the current state so that every one is in the documented domain.",
    "DESIGN.md section 3, C06",
)
claim(
    "C07", "exploration",
    "the C06 state machine with a well-formedness invariant (library validator + conditions it does not check) after every step; the same predicate on every from_array option combination",
    "After every step of random histories (incl. construction from arrays and INDX reloads) each live index must pass the "
    "comprehensive validator and the range / arity / non-emptiness / consequence conditions (abscissae, sparsity, inferred "
    "cube shape).",
    "Expectations are derived from the index's own dense content; raising operations end the history (C06 decides those).",
    "DESIGN.md section 3, C07",
)
claim(
    "C15", "exploration",
    "the C06 state machine with pairwise equality invariants over live indexes reached by different histories + most-frequent-value check after every normalisation and for from_array (counts, many-to-one mappings)",
    "After every library-chosen normalisation the common value's count must be the maximum; after every step ==, != are "
    "checked against (shape, common, dense content) for every ordered pair of live indexes, against directly built twins "
    "and against non-index objects.",
    "Non-index comparands are plain objects; ties between equally frequent values are allowed either way.",
    "DESIGN.md section 3, C15",
)
claim(
    "C16", "exploration",
    "schedule exploration: deterministic opcode-level scheduler (DetPool) driven by Hypothesis-drawn schedules + real threads under a 1 us switch interval; serial run as oracle",
    "Cubes with 3..12 sub-cubes are evaluated with the pool forced on; the pool is replaced by a scheduler that runs "
    "workers one at a time and pre-empts at bytecode boundaries inside catii according to generated schedules (shrinkable); "
    "outputs are compared bit for bit with the serial run. Real-thread repetitions cover GIL-release points inside C calls "
    "probabilistically.",
    "Interleavings are sampled, not enumerated; NumPy C calls are atomic for DetPool.",
    "DESIGN.md section 3, C16",
)
claim(
    "C20", "fault_enumeration",
    "exhaustive enumeration of the raising invocation index per generated cube (serial), singleton / full / drawn fault sets under real and deterministic pools",
    "For every generated cube every invocation index of the interrupt callback is made to raise in turn (serial), and every "
    "singleton, the full set and drawn subsets in pooled mode; exception identity, consultation counts, pool shutdown and "
    "bit-for-bit correctness of re-used cube and function objects are checked.",
    "Faults are exceptions raised by the callback; pooled invocation order is schedule-dependent.",
    "DESIGN.md section 3, C20",
)

NOT_YET = "check not built yet in this session (work in progress; see DESIGN.md section 9 build order)"

ALL = ["C%02d" % i for i in range(1, 21)]


def main():
    checks = []
    for pid in ALL:
        if pid not in CLAIMS:
            continue
        cat, tech, text, note, ref = CLAIMS[pid]
        checks.append({
            "property_id": pid,
            "quick_cmd": "./check %s --tier quick" % pid,
            "thorough_cmd": "./check %s --tier thorough" % pid,
            "evidence_file": "evidence/%s.json" % pid,
            "replay_cmd_template": "./check %s --replay {path}" % pid,
            "engine": "vfw",
            "level_claimed": {"category": cat, "text": text, "design_ref": ref},
            "level_note": note,
            "technique": tech,
        })
    manifest = {
        "version": 1,
        "setup_cmd": "./setup.sh && /venv/bin/python -m vfw.build plain bounds asan",
        "hooks": {
            "guard": "CATII_VERIF",
            "enable": "no source hooks are needed: checks import /repo/src by path, rebuild set_operations.pyx "
                      "themselves (plain / bounds-checked / ASan variants) and substitute the thread pool by "
                      "patching multiprocessing.pool.ThreadPool before catii is imported",
            "baseline_off_cmd": "cd /repo && CYTHONIZE_SETUP_PY=1 /venv/bin/python setup.py -q build_ext --inplace "
                                ">/dev/null 2>&1; /venv/bin/python -m pytest -ra -q -p no:cacheprovider --timeout=900 "
                                "--continue-on-collection-errors",
            "source_commits": [],
            "add_only": True,
        },
        "engines": [
            {"name": "vfw", "path": "vfw/", "serves_properties": sorted(CLAIMS),
             "kind_free_text": "Hypothesis property tests / rule-based state machines / bounded exhaustive "
                               "enumerators with explicit oracles, sharded over 16 processes; sanitizer and "
                               "bounds-checked rebuilds as observers; Atheris campaigns in thorough tiers"},
        ],
        "checks": checks,
        "not_applicable": [
            {"property_id": pid, "reason": NOT_YET} for pid in ALL if pid not in CLAIMS
        ],
        "notes": "All checks: exit 0 = held on everything explored, 1 = VIOLATION line with replay file, "
                 "2 = harness/build problem (inconclusive). VERIF_SEED and VERIF_TIER are honoured. "
                 "CATII_REPO overrides the repository location (used for mutants only).",
    }
    with open(os.path.join(HERE, "MANIFEST.json"), "w") as f:
        json.dump(manifest, f, indent=1)
    try:
        import jsonschema
        jsonschema.validate(manifest, json.load(open("/root/.vp/MANIFEST.schema.json")))
        print("MANIFEST.json valid;", len(checks), "checks,", len(manifest["not_applicable"]), "not_applicable")
    except ImportError:
        print("jsonschema missing; not validated")


if __name__ == "__main__":
    sys.path.insert(0, os.path.join(HERE, ".deps"))
    main()
