#!/bin/bash
# tools/mutant.sh <patch-file|-e 'sed-expr' file> -- <check args...>
# Runs a check against a scratch copy of /repo with a mutation applied; removes the copy afterwards.
set -u
D=$(mktemp -d /tmp/mut.XXXXXX)
mkdir -p "$D/src"
cp -r /repo/src/catii "$D/src/catii"
rm -f "$D"/src/catii/*.so "$D"/src/catii/*.c
rm -rf "$D/src/catii/__pycache__"
if [ "$1" = "-e" ]; then
  sed -i -e "$2" "$D/src/catii/$3" || exit 3
  shift 3
else
  (cd "$D" && patch -p1 -s < "$1") || { echo "patch failed"; rm -rf "$D"; exit 3; }
  shift 1
fi
[ "$1" = "--" ] && shift
if diff -rq /repo/src/catii "$D/src/catii" -x '*.so' -x '*.c' -x __pycache__ >/dev/null; then echo "MUTATION DID NOT CHANGE ANYTHING"; rm -rf "$D"; exit 3; fi
CATII_REPO="$D" /verif/check "$@"
rc=$?
rm -rf "$D"
exit $rc
