#!/venv/bin/python
"""tools/linecov.py DIR  - after `VFW_LINECOV=DIR ./check Cxx` runs: list the executable lines of /repo/src/catii/*.py
that NO sub-check executed (self-audit: code the machinery never reaches cannot be protected by it)."""
import glob, json, os, sys

d = sys.argv[1]
seen = {}
for f in glob.glob(os.path.join(d, "*.json")):
    for fn, line in json.load(open(f)):
        seen.setdefault(fn, set()).add(line)
root = os.environ.get("CATII_REPO", "/repo") + "/src/catii"
for path in sorted(glob.glob(root + "/*.py")):
    fn = os.path.basename(path)
    src = open(path).read()
    code = compile(src, path, "exec")
    lines = set()

    def walk(c):
        for _, _, ln in c.co_lines():
            if ln:
                lines.add(ln)
        for k in c.co_consts:
            if hasattr(k, "co_lines"):
                walk(k)

    walk(code)
    text = src.splitlines()
    # drop docstring-only / def lines that execute at import
    missed = sorted(l for l in lines - seen.get(fn, set()))
    print("== %s: %d executable lines, %d never executed" % (fn, len(lines), len(missed)))
    for l in missed:
        print("   %4d  %s" % (l, text[l - 1].rstrip()[:110]))
