#!/bin/bash
# tools/seeded_verify.sh <PROP> <dir with patch.diff demo.py> [extra check ids...]
# Confirms a seeded change in a fresh scratch worktree of /repo: applies, builds, existing tests unchanged,
# demo fails with / passes without, then runs our check(s) against it. Removes the worktree afterwards.
P=$1; SRC=$2; shift 2
W=/tmp/ver/$P.$$
mkdir -p /tmp/ver
git -C /repo worktree add -q --detach $W HEAD || exit 3
trap 'git -C /repo worktree remove --force $W >/dev/null 2>&1; rm -rf $W' EXIT
cd $W
CYTHONIZE_SETUP_PY=1 /venv/bin/python setup.py -q build_ext --inplace >/dev/null 2>&1
echo "--- demo on unchanged tree:"; PYTHONPATH=$W/src /venv/bin/python $SRC/demo.py 2>&1 | tail -2; echo "exit=$?"
PYTHONPATH=$W/src /venv/bin/python -m pytest -q -p no:cacheprovider --timeout=900 -rf tests 2>&1 | grep -E "^FAILED|passed|failed" | sort > /tmp/ver/$P.before
git apply $SRC/patch.diff || { echo "PATCH DOES NOT APPLY"; exit 3; }
git diff --stat | tail -3
if git diff --name-only | grep -q pyx; then CYTHONIZE_SETUP_PY=1 /venv/bin/python setup.py -q build_ext --inplace >/dev/null 2>&1; fi
echo "--- demo with the change:"; PYTHONPATH=$W/src /venv/bin/python $SRC/demo.py 2>&1 | tail -3; echo "exit=${PIPESTATUS[0]}"
PYTHONPATH=$W/src /venv/bin/python -m pytest -q -p no:cacheprovider --timeout=900 -rf tests 2>&1 | grep -E "^FAILED|passed|failed" | sort > /tmp/ver/$P.after
echo "--- test diff (empty = same failing set):"; diff <(grep ^FAILED /tmp/ver/$P.before) <(grep ^FAILED /tmp/ver/$P.after); grep -h passed /tmp/ver/$P.before /tmp/ver/$P.after
cd /verif
for c in $P "$@"; do echo "--- our check $c against the change:"; CATII_REPO=$W timeout 1500 ./check $c 2>&1 | grep -E "^  |VIOLATION|violation\(s\)|ERROR" | cut -c1-300 | head -5; done
