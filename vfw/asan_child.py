"""Child process entry for sub-checks that run under AddressSanitizer.

Started by vfw.core with LD_PRELOAD=<asan runtime>; runs one task (or one replay)
with the ASan build of the kernels and writes the result as JSON.
"""
import importlib
import json
import os
import sys


def main(argv):
    os.environ["VFW_ASAN_CHILD"] = "1"
    from . import core

    if argv[0] == "--replay":
        pmod = importlib.import_module(argv[1])
        msg = core.replay_file(pmod, argv[2])
        with open(argv[3], "w") as f:
            json.dump({"message": msg}, f)
        return 0
    modname, subname, tier, seed, shard, nshards, marker, out = argv
    pmod = importlib.import_module(modname)
    sub = core.find_sub(pmod, subname)
    res = core._task(pmod, sub, tier, int(seed), int(shard), int(nshards), marker)
    with open(out, "w") as f:
        json.dump(res, f, default=str)
    return 0


if __name__ == "__main__":
    sys.exit(main(sys.argv[1:]))
