#!/venv/bin/python
"""Atheris target: sorted-set kernels under ASan with the set-algebra oracle inside the target.

usage: kernels_fuzz.py STATS_FILE VIOLATION_FILE [libFuzzer args...]
Bytes are decoded into (op, two gap-encoded strictly increasing uint32 arrays | k arrays)."""
import json
import os
import sys

HERE = os.path.dirname(os.path.dirname(os.path.dirname(os.path.abspath(__file__))))
sys.path.insert(0, HERE)
sys.path.insert(0, os.path.join(HERE, ".deps"))

import atheris  # noqa: E402

STATS, VIOL = sys.argv[1], sys.argv[2]
ARGV = [sys.argv[0]] + sys.argv[3:]

from vfw import build, core, kernels  # noqa: E402

build.load_catii(os.environ.get("VFW_FUZZ_VARIANT", "asanfuzz"))
rec = core.Rec()
CALLS = [0]
if os.environ.get("VFW_MARKER"):
    rec.marker = open(os.environ["VFW_MARKER"], "w")
TOP = 2 ** 32 - 1


def decode_array(fdp, anchor_choice):
    n = fdp.ConsumeIntInRange(0, 24)
    v = [0, 1, 2 ** 31 - 3, TOP - 40, 65530][anchor_choice % 5]
    out = []
    for _ in range(n):
        g = fdp.ConsumeIntInRange(0, 7)
        if g == 7:
            g = fdp.ConsumeIntInRange(1, 2 ** 31)
        elif g == 0:
            g = 1
        if v > TOP:
            break
        out.append(v)
        v += g
    return out


def one_input(data):
    fdp = atheris.FuzzedDataProvider(data)
    op = fdp.ConsumeIntInRange(0, 9)
    anchor = fdp.ConsumeIntInRange(0, 4)
    if op <= 6:
        case = {"op": "pair", "a": decode_array(fdp, anchor), "b": decode_array(fdp, anchor if op % 2 else anchor + 1),
                "layout": ["plain", "strided", "offset", "readonly", "reversed"][fdp.ConsumeIntInRange(0, 4)]}
    elif op == 7:
        case = {"op": "wrap", "a": decode_array(fdp, anchor) if fdp.ConsumeBool() else None,
                "b": decode_array(fdp, anchor) if fdp.ConsumeBool() else None,
                "cl": fdp.ConsumeBool(), "cr": fdp.ConsumeBool(), "layout": "plain"}
    else:
        k = fdp.ConsumeIntInRange(0, 5)
        case = {"op": "many", "arrays": [decode_array(fdp, anchor) for _ in range(k)]}
    rec.begin(case)
    try:
        kernels.check_any(case, rec, os.environ.get("VFW_FUZZ_MODE", "c08"), enum=False)
    except core.Violation as v:
        with open(VIOL, "w") as f:
            json.dump({"case": case, "message": str(v), "sig": v.sig}, f)
        raise
    CALLS[0] += 1
    if CALLS[0] % 500 == 0:
        with open(STATS + ".tmp", "w") as f:
            json.dump(rec.export(), f)
        os.replace(STATS + ".tmp", STATS)


def main():
    atheris.Setup(ARGV, one_input)
    atheris.Fuzz()


if __name__ == "__main__":
    main()
