#!/venv/bin/python
"""Atheris target for INDX (C10 / C11): structured round trips and raw-bytes differential loading.

usage: indx_fuzz.py STATS_FILE VIOLATION_FILE [libFuzzer args...]"""
import json
import os
import sys

HERE = os.path.dirname(os.path.dirname(os.path.dirname(os.path.abspath(__file__))))
sys.path.insert(0, HERE)
sys.path.insert(0, os.path.join(HERE, ".deps"))

import atheris  # noqa: E402

STATS, VIOL = sys.argv[1], sys.argv[2]
ARGV = [sys.argv[0]] + sys.argv[3:]

from vfw import build, core  # noqa: E402

build.load_catii("plain")
with atheris.instrument_imports(include=["vfw.indxref"]):
    from vfw import indxref as R  # noqa: E402
from vfw import indxgen as G  # noqa: E402
from vfw.props import c10, c11  # noqa: E402

rec = core.Rec()
CALLS = [0]
MODE = os.environ.get("VFW_FUZZ_MODE", "c11")
MAGS = [0, 1, 200, 255, 256, 65535, 65536, 2 ** 32 - 1, 2 ** 32, 2 ** 63 - 1]


def value(fdp):
    if fdp.ConsumeBool():
        return fdp.ConsumeIntInRange(0, 300)
    m = MAGS[fdp.ConsumeIntInRange(0, len(MAGS) - 1)]
    return max(0, min(2 ** 63 - 1, m + fdp.ConsumeIntInRange(-2, 2)))


def structured(fdp):
    arity = fdp.ConsumeIntInRange(1, 4)
    n = fdp.ConsumeIntInRange(0, 12)
    ents, seen = [], set()
    for _ in range(n):
        c = tuple(value(fdp) for _ in range(arity))
        if c in seen:
            continue
        seen.add(c)
        ln = fdp.ConsumeIntInRange(0, 10)
        v = fdp.ConsumeIntInRange(0, 5) if fdp.ConsumeBool() else 2 ** 32 - 1 - 40
        rows = []
        for _ in range(ln):
            if v > 2 ** 32 - 1:
                break
            rows.append(v)
            v += fdp.ConsumeIntInRange(1, 9)
        ents.append([list(c), rows])
    return {"common": value(fdp), "arity": arity, "entries": ents}


def one_input(data):
    if not data:
        return
    mode = data[0] & 3
    fdp = atheris.FuzzedDataProvider(data[1:])
    try:
        if mode <= 1:
            case = structured(fdp)
            rec.begin(case)
            if MODE == "c10":
                c10.check(case, rec)
            else:
                c11.check_writer(case, rec)
        elif MODE == "c10":
            case = structured(fdp)
            rec.begin(case)
            c10.check(case, rec)
        else:
            raw = bytes(data[1:])
            rec.begin({"raw": raw.hex()})
            try:
                dec = R.ref_decode(raw)
            except R.RefDecodeError:
                return
            keys = [c for c, _ in dec["entries"]]
            if len(set(keys)) != len(keys) or dec["dims"] == 0 and dec["entries"]:
                return
            if any(any(b <= a for a, b in zip(r, r[1:])) for _, r in dec["entries"]):
                pass  # row ids need not be sorted for the file to be well laid out
            case = {"common": dec["common"], "arity": dec["dims"], "rw": dec["rw"], "iw": dec["iw"],
                    "entries": [[list(c), list(r)] for c, r in dec["entries"]]}
            if dec["common"] >= 2 ** 63 or any(x >= 2 ** 63 for c in keys for x in c):
                return
            if any(x > 2 ** 32 - 1 for _, r in dec["entries"] for x in r):
                return  # the loader documents uint32 row ids
            rec.begin(case)
            c11.check_reader(case, rec)
            rec.note("raw file accepted by the reference decoder")
    except core.Violation as v:
        with open(VIOL, "w") as f:
            json.dump({"case": rec.current, "message": str(v), "sig": v.sig}, f)
        raise
    CALLS[0] += 1
    if CALLS[0] % 500 == 0:
        with open(STATS + ".tmp", "w") as f:
            json.dump(rec.export(), f)
        os.replace(STATS + ".tmp", STATS)


def main():
    atheris.Setup(ARGV, one_input)
    atheris.Fuzz()


if __name__ == "__main__":
    main()
