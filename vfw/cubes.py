"""Shared generators, model helpers and brute-force oracle for the cube properties.

Cases are plain JSON data; `materialise*` turns them into NumPy / catii objects.
The oracle groups rows per cell in pure Python and never calls the library.
"""
import itertools
import math
from collections import defaultdict

from hypothesis import strategies as st

from .core import Violation, libcall

NaN = float("nan")
BIG_EXTENTS = [255, 256, 257, 65535, 65536, 65537]

# --------------------------------------------------------------------------- #
# independent index constructor / reader


def build_index(dense, common, readonly=False, reverse=False):
    """Independent constructor of an iindex from a dense array (any ndim >= 1).

    readonly=True makes the row-id arrays read-only, like the mmap-backed arrays IndxIO.load returns."""
    import numpy

    from catii import iindex

    dense = numpy.asarray(dense)
    entries = {}
    tail = dense.shape[1:]
    for hi in itertools.product(*[range(e) for e in tail]):
        col = dense[(slice(None),) + hi]
        for v in sorted(set(col.tolist())):
            if v == common:
                continue
            arr = numpy.nonzero(col == v)[0].astype(numpy.uint32)
            if readonly == "strided":
                # a legal non-contiguous view (e.g. a column of a 2-D uint32 table)
                big = numpy.full(2 * len(arr) + 1, 0xDEADBEEF, dtype=numpy.uint32)
                big[1::2][: len(arr)] = arr
                arr = big[1::2][: len(arr)]
            elif readonly == "lists":
                arr = arr.tolist()  # plain Python lists: the constructor converts them (documented, slower path)
            elif readonly:
                arr.setflags(write=False)
            entries[(int(v),) + hi] = arr
    if reverse:
        # dict insertion order is not part of an index's value: hand the entries over in reverse order
        entries = dict(reversed(list(entries.items())))
    return iindex(entries, int(common) if not isinstance(common, str) else common,
                  tuple(int(x) for x in dense.shape))


def dense_of(index, dtype=None):
    """Independent reader: the dense array an iindex stands for."""
    import numpy

    vals = [k[0] for k in index] + [index.common]
    if dtype is None:
        dtype = numpy.int64 if all(-(2 ** 63) <= v < 2 ** 63 for v in vals) else object
    out = numpy.full(index.shape, index.common, dtype=dtype)
    for coords, rowids in index.items():
        out[(numpy.asarray(rowids, dtype=numpy.int64),) + tuple(coords[1:])] = coords[0]
    return out


# --------------------------------------------------------------------------- #
# strategies (cases are JSON data)


def _prod(xs):
    p = 1
    for x in xs:
        p *= x
    return p


ROW_PATTERNS = ["random", "random", "random", "random", "sorted", "runs", "constant", "alternating"]


def apply_row_pattern(data, N, pattern, run=3):
    """Real data is rarely uniform noise: rows sorted by category, long runs of identical rows, a constant column,
    two alternating rows. `data` is the row-major flat list of an (N, ...) array."""
    if pattern == "random" or N == 0:
        return data
    width = len(data) // N
    rows = [data[r * width:(r + 1) * width] for r in range(N)]
    if pattern == "sorted":
        rows = sorted(rows)
    elif pattern == "runs":
        rows = [rows[(r // run) * run] for r in range(N)]
    elif pattern == "constant":
        rows = [rows[0]] * N
    elif pattern == "alternating":
        rows = [rows[r % 2] if N > 1 else rows[0] for r in range(N)]
    return [x for row in rows for x in row]


VALID_PATTERNS = ["random", "random", "random", "all", "all_but_last", "all_but_first", "none_but_last", "every_third"]


def apply_valid_pattern(valid, N, pattern):
    if pattern == "random" or N == 0:
        return valid
    width = len(valid) // N
    if pattern == "all":
        return [True] * len(valid)
    if pattern == "all_but_last":
        return [True] * (len(valid) - width) + [False] * width
    if pattern == "all_but_first":
        return [False] * width + [True] * (len(valid) - width)
    if pattern == "every_third":
        return [(i // width) % 3 != 2 for i in range(len(valid))]
    return [False] * (len(valid) - width) + [True] * width


@st.composite
def dim_specs(draw, N, tails, big_ok=False, big_extents=None):
    tail = list(draw(st.sampled_from(tails)))
    size = N * _prod(tail)
    if big_ok and (big_extents is not None or draw(st.integers(0, 5)) == 0):
        e = draw(st.sampled_from(big_extents or BIG_EXTENTS))
        palette = [0, 1, e - 2, e - 1]
        raw = draw(st.lists(st.integers(0, 7), min_size=size, max_size=size))
        data = [palette[x] if x < 4 else 0 for x in raw]
        data = apply_row_pattern(data, N, draw(st.sampled_from(ROW_PATTERNS)), draw(st.sampled_from([2, 3, 8])))
        common = draw(st.sampled_from([0, 0] + palette + [e]))
        return {"tail": tail, "data": data, "common": common, "big": True}
    e = draw(st.integers(1, 5))
    k = draw(st.sampled_from([0, e, 8 * e]))
    d = draw(st.integers(0, e - 1))
    raw = draw(st.lists(st.integers(0, e + k - 1), min_size=size, max_size=size))
    data = [x if x < e else d for x in raw]
    data = apply_row_pattern(data, N, draw(st.sampled_from(ROW_PATTERNS)), draw(st.sampled_from([2, 3, 8])))
    common = draw(st.one_of(st.just(d), st.integers(0, e)))
    return {"tail": tail, "data": data, "common": common, "big": False}


@st.composite
def cube_specs(draw, max_nd=3, min_nd=0, max_n=40, tails=((), (), (2,), (3,), (1,), (2, 2)),
               big_ok=False, min_n=0, force_multi=False, big_extents=None):
    N = draw(st.one_of(st.integers(min_n, min(max_n, max(min_n, 3))), st.integers(min_n, max_n), st.integers(min_n, max_n),
                       st.sampled_from([n for n in (1, 2, 4, 8, 16, 32, 64) if min_n <= n <= max_n] or [min_n])))
    nd = draw(st.integers(min_nd, max_nd))
    dims = []
    nbig = 0
    for i in range(nd):
        scaffold = _prod(_prod(d["tail"]) for d in dims)
        t = [x for x in tails if scaffold * _prod(x) <= 24] or [()]
        if force_multi and i == 0:
            t = [x for x in t if x] or t
        spec = draw(dim_specs(N, t, big_ok=big_ok and nbig == 0 and nd <= 2, big_extents=big_extents))
        nbig += spec["big"]
        dims.append(spec)
    if nbig:
        # keep the working region small: the other dimension gets extent <= 2
        for d in dims:
            if not d["big"]:
                d["data"] = [min(x, 1) for x in d["data"]]
                d["common"] = min(d["common"], 2)
    alias = None
    if nd >= 2 and not nbig and draw(st.integers(0, 7)) == 0:
        # the SAME object may serve as two dimensions of one cube (the repository's tests do ccube([idx, idx]))
        i = draw(st.integers(0, nd - 2))
        scaffold = _prod(_prod(d["tail"]) for d in dims)
        if scaffold * _prod(dims[i]["tail"]) <= 36:
            dims[i + 1] = dict(dims[i])
            alias = [i, i + 1]
            if N >= 4 and draw(st.integers(0, 2)) == 0:
                # a NEAR copy (wave 1 against wave 2 of a panel question): two late rows swapped, no aliasing
                data = list(dims[i + 1]["data"])
                w = len(data) // N
                r1, r2 = (3 * N) // 4 - 1, (3 * N) // 4
                data[r1 * w:(r1 + 1) * w], data[r2 * w:(r2 + 1) * w] = data[r2 * w:(r2 + 1) * w], data[r1 * w:(r1 + 1) * w]
                dims[i + 1]["data"] = data
                alias = None
    mode = draw(st.sampled_from(["inferred", "exact", "padded"]))
    pads = draw(st.lists(st.integers(1, 3), min_size=nd, max_size=nd))
    return {"N": N, "dims": dims, "shape_mode": mode, "pads": pads,
            "readonly": draw(st.sampled_from([False, False, False, True, "strided", "lists"])),
            "reverse": draw(st.booleans()), "alias": alias,
            "alias_kind": draw(st.sampled_from(["object", "content"]))}


def fact_specs(N, dtypes=("float", "int"), max_k=3, dyadic=True, magnitudes=False):
    """magnitudes=True adds two float modes: 'offset' (a large common offset plus small deltas, i.e. |mean| far
    above the spread - timestamps, ids) and 'ties' (a few inexact values repeated many times)."""
    @st.composite
    def build(draw):
        K = draw(st.sampled_from([None, None, 1, 2, 3][: 2 + max_k]))
        size = N * (K or 1)
        dtype = draw(st.sampled_from(dtypes))
        form = "tuple" if dtype == "int" else draw(st.sampled_from(["nan", "tuple"]))
        if dyadic or dtype == "int":
            vals = draw(st.lists(st.one_of(st.integers(-40, 40), st.integers(-(2 ** 16), 2 ** 16)),
                                 min_size=size, max_size=size))
        else:
            vals = draw(st.lists(st.floats(-1e3, 1e3, allow_nan=False, width=64),
                                 min_size=size, max_size=size))
        is_dyadic = bool(dyadic or dtype == "int")
        mode = "plain"
        if magnitudes and dtype == "float" and draw(st.integers(0, 2)) == 0:
            mode = draw(st.sampled_from(["offset", "offset", "ties"]))
            small = draw(st.lists(st.integers(-24, 24), min_size=size, max_size=size))
            if mode == "offset":
                base = draw(st.sampled_from([1.0e6, 1.7e9, -3.2e7, float(2 ** 40), 123456789.25]))
                vals = [base + v / 8.0 for v in small]
            else:
                pool = draw(st.lists(st.sampled_from([0.1, 0.3, 2.7, 1.0e-3, 19.99, -0.7]), min_size=1, max_size=3))
                vals = [pool[v % len(pool)] for v in small]
            is_dyadic = False
        pmiss = draw(st.sampled_from([0, 1, 3, 7]))
        valid = draw(st.lists(st.integers(0, 7).map(lambda x: x >= pmiss), min_size=size, max_size=size))
        valid = apply_valid_pattern(valid, N, draw(st.sampled_from(VALID_PATTERNS)))
        vals = apply_row_pattern(vals, N, draw(st.sampled_from(ROW_PATTERNS)), draw(st.sampled_from([2, 3, 8])))
        if is_dyadic and mode == "plain" and N >= 2 and draw(st.integers(0, 9)) == 0:
            # a balanced ledger: every column sums to exactly zero (signed amounts), nothing missing - a margin can then
            # be exactly 0 over cells that are not
            width = K or 1
            for col in range(width):
                vals[(N - 1) * width + col] = -sum(vals[r * width + col] for r in range(N - 1))
            valid = [True] * size
            mode = "zero_total"
        junk = draw(st.lists(st.integers(0, 2), min_size=size, max_size=size))
        as_list = draw(st.booleans()) if N >= 1 else False
        return {"K": K, "dtype": dtype, "form": form, "values": vals, "valid": valid, "junk": junk,
                "as_list": as_list, "dyadic": is_dyadic, "mode": mode}

    return build()


def weight_specs(N, scalar_ok=True, zero_ok=True, kinds=("none", "scalar", "array", "array")):
    @st.composite
    def build(draw):
        kind = draw(st.sampled_from([k for k in kinds if scalar_ok or k != "scalar"]))
        if kind == "none":
            return None
        lo = 0 if zero_ok else 1
        if kind == "scalar":
            v = draw(st.sampled_from(["nan", 0, 1024, 2048, 512, 1, 3000]))
            if v == 0 and not zero_ok:
                v = 1024
            return {"kind": "scalar", "value": v}
        dtype = draw(st.sampled_from(["float", "float", "int"]))
        form = draw(st.sampled_from(["nan", "tuple"])) if dtype == "float" else draw(
            st.sampled_from(["plain", "tuple"]))
        rough = dtype == "float" and draw(st.integers(0, 2)) == 0
        wide = False
        if rough:
            # weights that do not add exactly in binary floating point (0.1, 0.35, 1.7, ...)
            vals = draw(st.lists(st.one_of(st.sampled_from([0.1, 0.35, 0.7, 1.7, 0.3, 2.5, 0.05, 1.0] + ([0.0] if lo == 0 else [])),
                                           st.floats(0.01, 10.0, allow_nan=False)), min_size=N, max_size=N))
        elif dtype == "float" and draw(st.integers(0, 5)) == 0:
            # weights of very different magnitude in one cube (still exact: m x 2^17 / 1024 next to 1..64 / 1024):
            # a heavy cell next to a cell whose total weight is 10^9 times smaller
            wide = True
            vals = draw(st.lists(st.one_of(st.integers(1, 2 ** 14).map(lambda m: m * 2 ** 17),
                                           st.sampled_from([1, 2, 3, 8, 64, 1024]),
                                           st.sampled_from([1, 2, 3, 8, 64, 1024] + ([0] if lo == 0 else []))),
                                 min_size=N, max_size=N))
        elif dtype == "float":
            vals = draw(st.lists(st.one_of(st.sampled_from([lo * 1024, 1024, 512, 2048]),
                                           st.integers(lo, 2 ** 14)), min_size=N, max_size=N))
        else:
            vals = draw(st.lists(st.integers(lo, 5), min_size=N, max_size=N))
        if N and draw(st.integers(0, 5)) == 0:
            one = 1 if dtype == "int" else (1.0 if rough else 1024)
            vals = [draw(st.sampled_from([vals[0] or one, one, one]))] * N  # all weights equal, mostly exactly 1
        pmiss = draw(st.sampled_from([0, 0, 1, 3]))
        if form == "plain":
            valid = [True] * N
        else:
            valid = draw(st.lists(st.integers(0, 7).map(lambda x: x >= pmiss), min_size=N, max_size=N))
            valid = apply_valid_pattern(valid, N, draw(st.sampled_from(VALID_PATTERNS)))
        junk = draw(st.lists(st.integers(0, 2), min_size=N, max_size=N))
        as_list = draw(st.booleans()) if N >= 1 else False
        return {"kind": "array", "dtype": dtype, "form": form, "values": vals, "valid": valid,
                "junk": junk, "as_list": as_list, "rough": rough, "wide": wide}

    return build()


RMAS = ["nan", ["tuple", 0], ["tuple", -1], ["tuple", 99.5], "plain"]
INT_DTYPES = ["int8", "int16", "int32", "int64", "uint8", "uint16", "uint32", "uint64", "bool"]


# --------------------------------------------------------------------------- #
# materialisation


def dense_dims(case):
    import numpy

    out = []
    for d in case["dims"]:
        shape = (case["N"],) + tuple(d["tail"])
        out.append(numpy.array(d["data"], dtype=numpy.int64).reshape(shape))
    return out


def exact_shape(case, dense=None):
    dense = dense_dims(case) if dense is None else dense
    shp = []
    for d, arr in zip(case["dims"], dense):
        m = int(arr.max()) if arr.size else -1
        shp.append(max(m, d["common"]) + 1)
    return tuple(shp)


def cube_shape(case, dense=None):
    """(shape argument for the cubes or None, expected interacting shape of the ccube)."""
    ex = exact_shape(case, dense)
    if case["shape_mode"] == "inferred":
        return None, ex
    if case["shape_mode"] == "exact":
        return ex, ex
    padded = tuple(e + p for e, p in zip(ex, case["pads"]))
    return padded, padded


def scaffold_shape(case):
    return tuple(e for d in case["dims"] for e in d["tail"])


def fact_arrays(spec, N):
    """Return (argument to pass, values float ndarray (N,[K]), validity bool ndarray)."""
    import numpy

    K = spec["K"]
    shape = (N,) if K is None else (N, K)
    valid = numpy.array(spec["valid"], dtype=bool).reshape(shape)
    if spec["dtype"] == "int":
        vals = numpy.array(spec["values"], dtype=numpy.int64).reshape(shape)
        junkvals = numpy.array([10 ** 6, -3, 7], dtype=numpy.int64)
    else:
        vals = numpy.array(spec["values"], dtype=float).reshape(shape)
        if spec["dyadic"]:
            vals = vals / 8.0
        junkvals = numpy.array([NaN, 1e6, -3.0])
    passed = vals.copy()
    junk = numpy.array(spec["junk"], dtype=numpy.int64).reshape(shape)
    if spec["form"] == "nan":
        passed[~valid] = NaN
        arg = passed.tolist() if spec["as_list"] else passed
    else:
        passed[~valid] = junkvals[junk[~valid]]
        if spec["as_list"]:
            arg = (passed.tolist(), valid.tolist())
        else:
            arg = (passed, valid.copy())
    return arg, vals.astype(float), valid


def weight_arrays(spec, N):
    """Return (argument, per-row weights float ndarray (N,), per-row validity bool (N,))."""
    import numpy

    if spec is None:
        return None, numpy.ones(N), numpy.ones(N, dtype=bool)
    if spec["kind"] == "scalar":
        if spec["value"] == "nan":
            return NaN, numpy.zeros(N), numpy.zeros(N, dtype=bool)
        v = spec["value"] / 1024.0
        return v, numpy.full(N, v), numpy.ones(N, dtype=bool)
    valid = numpy.array(spec["valid"], dtype=bool)
    junk = numpy.array(spec["junk"], dtype=numpy.int64)
    if spec["dtype"] == "int":
        vals = numpy.array(spec["values"], dtype=numpy.int64)
        junkvals = numpy.array([10 ** 6, -3, 7], dtype=numpy.int64)
    else:
        vals = numpy.array(spec["values"], dtype=float)
        if not spec.get("rough"):
            vals = vals / 1024.0
        junkvals = numpy.array([NaN, 1e6, -3.0])
    passed = vals.copy()
    if spec["form"] == "nan":
        passed[~valid] = NaN
        arg = passed.tolist() if spec["as_list"] else passed
    elif spec["form"] == "plain":
        arg = passed.tolist() if spec["as_list"] else passed
    else:
        passed[~valid] = junkvals[junk[~valid]]
        arg = (passed.tolist(), valid.tolist()) if spec["as_list"] else (passed, valid.copy())
    return arg, vals.astype(float), valid


def rma_arg(rma):
    if rma == "nan":
        return NaN
    if rma == "plain":
        return 0
    return (rma[1], False)


# --------------------------------------------------------------------------- #
# brute-force oracle


def group_rows(cols, N):
    groups = defaultdict(list)
    lists = [c.tolist() for c in cols]
    for r in range(N):
        groups[tuple(l[r] for l in lists)].append(r)
    return groups


def oracle(dense, shape, agg, N, fvals=None, fvalid=None, w=None, wvalid=None, ignore=False,
           weighted=False):
    """Expected (values, missing) arrays of shape scaffold + shape (+ K).

    dense: list of int arrays (N, *tail); fvals/fvalid: (N,) or (N, K) or None (count);
    w/wvalid: per-row arrays (N,).
    """
    import numpy

    tails = [d.shape[1:] for d in dense]
    scaffold = tuple(e for t in tails for e in t)
    K = None if fvals is None or fvals.ndim == 1 else fvals.shape[1]
    out_shape = scaffold + tuple(shape) + (() if K is None else (K,))
    vals = numpy.zeros(out_shape, dtype=float)
    miss = numpy.ones(out_shape, dtype=bool)
    mixed = 0
    wl = w.tolist()
    wvl = wvalid.tolist()
    for pos in itertools.product(*[itertools.product(*[range(e) for e in t]) for t in tails]):
        cols = [d[(slice(None),) + p] for d, p in zip(dense, pos)]
        flatpos = tuple(x for p in pos for x in p)
        for cell, rows in group_rows(cols, N).items():
            for k in ([None] if K is None else range(K)):
                if fvals is None:
                    good = [r for r in rows if wvl[r]]
                else:
                    fv = fvalid if K is None else fvalid[:, k]
                    good = [r for r in rows if wvl[r] and fv[r]]
                nbad = len(rows) - len(good)
                m = len(good) == 0 or (not ignore and nbad > 0)
                if good and nbad:
                    mixed += 1
                wsum = math.fsum(wl[r] for r in good)
                if agg in ("count", "valid_count"):
                    v = wsum
                else:
                    fx = fvals if K is None else fvals[:, k]
                    s = math.fsum(wl[r] * float(fx[r]) for r in good)
                    if agg == "sum":
                        v = s
                    else:
                        if wsum == 0:
                            m = True
                            v = 0.0
                        else:
                            v = s / wsum
                idx = flatpos + cell + (() if k is None else (k,))
                vals[idx] = 0.0 if m else v
                miss[idx] = m
    return vals, miss, mixed


def normalise(res, rma, what):
    """Library result -> (values float array, missing bool array or None for the plain format)."""
    import numpy

    if rma == "nan":
        if isinstance(res, tuple):
            raise Violation("%s returned a tuple for return_missing_as=NaN" % what, sig="result format")
        v = numpy.asarray(res, dtype=float)
        m = numpy.isnan(v)
        return numpy.where(m, 0.0, v), m
    if rma == "plain":
        if isinstance(res, tuple):
            raise Violation("%s returned a tuple for a plain replacement value" % what, sig="result format")
        return numpy.asarray(res, dtype=float), None
    if not (isinstance(res, tuple) and len(res) == 2):
        raise Violation("%s did not return (values, validity) for return_missing_as=(s, False)" % what,
                        sig="result format")
    v, valid = res
    valid = numpy.asarray(valid)
    if valid.dtype != bool:
        raise Violation("%s: validity array has dtype %s" % (what, valid.dtype), sig="validity dtype")
    v = numpy.asarray(v, dtype=float)
    if v.shape != valid.shape:
        raise Violation("%s: values %s and validity %s shapes differ" % (what, v.shape, valid.shape),
                        sig="validity shape")
    return numpy.where(valid, v, 0.0), ~valid


def compare(what, got_v, got_m, exp_v, exp_m, tol_abs=0.0, rtol=1e-12):
    """Compare a normalised library result with the oracle. Shapes must already agree."""
    import numpy

    if got_v.shape != exp_v.shape:
        raise Violation("%s: result shape %s, expected %s" % (what, got_v.shape, exp_v.shape),
                        sig=what.split("[")[0] + " shape")
    if got_m is not None:
        if not numpy.array_equal(got_m, exp_m):
            idx = tuple(int(x) for x in numpy.argwhere(got_m != exp_m)[0])
            raise Violation("%s: cell %s reported %s, expected %s" % (
                what, idx, "missing" if got_m[idx] else "valid (%r)" % got_v[idx],
                "missing" if exp_m[idx] else "valid (%r)" % exp_v[idx]),
                sig=what.split("[")[0] + " missing cells differ")
        sel = ~exp_m
    else:
        sel = numpy.ones(exp_v.shape, dtype=bool)
    g = got_v[sel]
    e = numpy.where(exp_m, 0.0, exp_v)[sel]
    bad = ~(numpy.abs(g - e) <= (tol_abs + rtol * numpy.abs(e)))
    if bad.any():
        i = int(numpy.argwhere(bad)[0][0])
        raise Violation("%s: a cell holds %r, expected %r" % (what, float(g[i]), float(e[i])),
                        sig=what.split("[")[0] + " values differ")


# --------------------------------------------------------------------------- #
# evaluating one aggregate on either cube type


def call_agg(cube, agg, fact_arg, weights_arg, ignore, rma, N=None, prob=None, via=None):
    ra = rma_arg(rma)
    if via == "func_tracing_off" and type(cube).__name__ == "ccube" and agg in ("count", "valid_count", "sum", "mean"):
        # the same aggregate through an explicit function object built with tracing switched off (another closure)
        from catii import ffuncs

        if agg == "count":
            fobj = ffuncs.ffunc_count(weights_arg, N, ignore, ra, tracing=False)
        else:
            fobj = getattr(ffuncs, "ffunc_" + agg)(fact_arg, weights_arg, ignore, ra, tracing=False)
        return cube.calculate([fobj])[0]
    if agg == "count":
        return cube.count(weights_arg, N=N, ignore_missing=ignore, return_missing_as=ra)
    if agg in ("max", "min"):
        return getattr(cube, agg)(fact_arg, ignore_missing=ignore, return_missing_as=ra)
    if agg == "quantile":
        return cube.quantile(fact_arg, prob, weights_arg, ignore_missing=ignore, return_missing_as=ra)
    return getattr(cube, agg)(fact_arg, weights_arg, ignore_missing=ignore, return_missing_as=ra)


def make_ccube(case, dense=None, commons=None):
    from catii import ccube

    dense = dense_dims(case) if dense is None else dense
    commons = [d["common"] for d in case["dims"]] if commons is None else commons
    shape_arg, _ = cube_shape(case, dense)
    idxs = [build_index(a, c, readonly=case.get("readonly", False), reverse=bool(case.get("reverse")))
            for a, c in zip(dense, commons)]
    if case.get("alias") and commons[case["alias"][0]] == commons[case["alias"][1]] and case.get("alias_kind") != "content":
        idxs[case["alias"][1]] = idxs[case["alias"][0]]  # else: two objects with identical content
    return ccube(idxs, shape_arg), idxs


def make_xcube(case, dense=None, dtypes=None, force_explicit=False):
    """Returns (xcube, interacting shape it will use)."""
    import numpy

    from catii import xcube

    dense = dense_dims(case) if dense is None else dense
    shape_arg, full = cube_shape(case, dense)
    empty = any(a.size == 0 for a in dense)
    if shape_arg is None and (empty or force_explicit):
        shape_arg = full
    arrs = []
    for i, a in enumerate(dense):
        dt = (dtypes or [])[i] if dtypes and i < len(dtypes) else "int64"
        if dt == "bool":
            dt = "bool" if (not a.size or int(a.max()) <= 1) else "uint8"
        if dt != "bool":
            info = numpy.iinfo(dt)
            if a.size and int(a.max()) > info.max:
                dt = "int64"
        arrs.append(a.astype(dt))
    if case.get("alias") and case.get("alias_kind") != "content":
        arrs[case["alias"][1]] = arrs[case["alias"][0]]
    if shape_arg is None:
        used = tuple(int(a.max()) + 1 for a in dense)
    else:
        used = shape_arg
    return xcube(arrs, shape_arg), used


def crop_to(exp_v, exp_m, nscaffold, used, full):
    """Restrict oracle arrays (interacting shape `full`) to an xcube's smaller inferred shape `used`.

    Returns (values, missing, remainder_all_missing)."""
    import numpy

    sl = (slice(None),) * nscaffold + tuple(slice(0, u) for u in used)
    rest = numpy.ones(exp_m.shape, dtype=bool)
    rest[sl + (Ellipsis,)] = False
    return exp_v[sl], exp_m[sl], bool(exp_m[rest].all())


class pool_on(object):
    """Context manager: evaluate `cube` with its worker pool switched on. spec = {"size": k, "schedule": None | DetPool
    schedule}; with a schedule the thread pool is the deterministic DetPool, otherwise the real ThreadPool."""

    def __init__(self, cube, spec):
        self.cube, self.spec, self.pools = cube, spec, []

    def __enter__(self):
        import os

        import catii

        from . import build
        from .detpool import DetPool

        self.cube.parallel = True
        self.cube.poolsize = self.spec["size"]
        sched = self.spec.get("schedule")
        if sched:
            here = os.path.dirname(catii.__file__)

            def factory(size=None, *a, **k):
                p = DetPool(size, sched, here)
                self.pools.append(p)
                return p

            build.POOL_FACTORY[0] = factory
        return self

    def __exit__(self, *exc):
        from . import build

        build.POOL_FACTORY[0] = None
        for p in self.pools:
            p.join()
        return False


def pool_specs():
    """None (serial) half of the time, else a pool size with a real ThreadPool or a DetPool 'stores' schedule."""
    from hypothesis import strategies as st

    sched = st.one_of(
        st.none(),
        st.builds(lambda q, p, s: {"kind": "stores", "prio": list(range(16)), "store_per_mille": q,
                                   "prob_per_mille": p, "seed": s},
                  st.integers(100, 700), st.integers(0, 20), st.integers(0, 10 ** 6)))
    return st.one_of(st.none(), st.builds(lambda k, s: {"size": k, "schedule": s},
                                          st.sampled_from([2, 3, 4, 6, 16]), sched))


# --------------------------------------------------------------------------- #
# large cases stored as recipes (thousands of rows would bloat replay files)


@st.composite
def large_specs(draw, aggs, max_k=10, many_ok=True, min_nd=0, max_n=10 ** 9):
    """Hundreds to thousands of rows, few or MANY categories (extent ~ N / 3), up to ten fact columns: size-dependent
    paths inside the aggregate functions (buffers, bincount lengths, per-category loops) are crossed.
    The row data is generated from three small integers by expand()."""
    N = draw(st.sampled_from([n for n in [256, 300, 1024, 1100, 2048, 2500, 2500, 4096, 65536, 131072] if n <= max_n]))
    nd = draw(st.sampled_from([n for n in [0, 1, 1, 2, 2, 2] if n >= min_nd]))
    recipe = [draw(st.integers(1, 9)), draw(st.integers(0, 9)), draw(st.integers(0, 9))]
    rows = draw(st.sampled_from(["random", "sorted", "sorted", "blocks64", "blocks1024"]))
    density = draw(st.sampled_from(["quarter", "quarter", "rare"]))
    dims = []
    for i in range(nd):
        many = many_ok and i == 0 and N < 60000 and draw(st.booleans())
        extent = draw(st.sampled_from([N // 3, 257, 1000, 100, 200, 255])) if many else draw(st.sampled_from([1, 2, 3, 4, 5]))
        tail = [] if (many or i > 0) else list(draw(st.sampled_from([(), (), (2,), (3,)])))
        fav = (recipe[1] + i) % extent  # the category most rows get (see expand)
        others = [v for v in range(extent + 1) if v != fav]
        common = draw(st.sampled_from([0, 1, extent - 1, extent]))
        if density == "rare" and draw(st.integers(0, 3)):
            common = fav  # a truly sparse index: one listed row in ~200
        elif rows != "random" and i == 0 and others and draw(st.integers(0, 3)):
            common = draw(st.sampled_from(others))  # the long runs of a sorted file are LISTED entries, not the common value
        dims.append({"tail": tail, "extent": extent, "common": common, "big": False})
        if many:
            N = min(N, 1100)  # hundreds of categories x thousands of rows x ten columns would only slow the oracle down
            max_k = min(max_k, 2)
    agg = draw(st.sampled_from(aggs))
    case = {"N": N, "dims": dims, "shape_mode": draw(st.sampled_from(["inferred", "exact"])), "pads": [1] * nd,
            "readonly": False, "reverse": draw(st.booleans()), "alias": None, "agg": agg,
            "recipe": recipe,
            # row order: hashed noise, SORTED by the first dimension (a file grouped by wave / country: every category
            # is one long run of consecutive rows), or blocks of exactly 64 / 1024 identical rows
            "rows": rows,
            # a quarter of the rows outside the favourite category, or only one row in ~200 (very sparse indexes)
            "density": density,
            # missing pattern of facts and weights: hashed (about one row in 11 / 13) or none at all
            "valid": draw(st.sampled_from(["hashed", "hashed", "all", "one"] if N < 60000 else ["one", "one", "all", "hashed"]))}
    case["fact"] = None if agg == "count" else {
        "K": draw(st.sampled_from([None, None, 2, max_k])), "dtype": draw(st.sampled_from(["float", "int"])),
        "form": "tuple", "as_list": False, "dyadic": True, "mode": "plain"}
    if case["fact"] is not None and case["fact"]["dtype"] == "float":
        case["fact"]["form"] = draw(st.sampled_from(["nan", "tuple"]))
    case["weights"] = draw(st.sampled_from([None, {"kind": "array", "dtype": "float", "form": "tuple",
                                                    "as_list": False, "rough": False, "wide": False},
                                            {"kind": "array", "dtype": "int", "form": "plain", "as_list": False,
                                             "rough": False, "wide": False}]))
    if case["weights"] is not None:
        case["weights"] = dict(case["weights"], ones=draw(st.integers(0, 3)) == 0)  # every weight exactly 1
    return case


def expand(case):
    """Fill in the row data of a recipe case (deterministic arithmetic on three small integers)."""
    if not case.get("recipe") or case.get("expanded"):
        return case
    N = case["N"]
    a, b, c = case["recipe"]
    case = dict(case)
    dims = []
    for j, d in enumerate(case["dims"]):
        size = N * _prod(d["tail"])
        ext = d["extent"]
        # skewed towards category (b % ext): most rows there, the rest spread over all categories
        fav = (b + j) % ext
        data = []
        for i in range(size):
            h = (i * (7 + 2 * a + j) + (i // (3 + c)) * 13 + i * i % (5 + b)) % (4 * ext)
            if case.get("density") == "rare" and (i * 37 + a + 11 * j) % 197 != 0:
                h = 4 * ext
            data.append(h if h < ext else fav)
        rows = case.get("rows", "random")
        if j == 0 and rows != "random":
            width = _prod(d["tail"])
            if rows == "sorted":
                chunks = sorted(data[r * width:(r + 1) * width] for r in range(N))
            else:
                run = 64 if rows == "blocks64" else 1024
                chunks = [data[((r // run) * run) * width:((r // run) * run + 1) * width] for r in range(N)]
            data = [x for ch in chunks for x in ch]
        dims.append(dict(d, data=data))
    case["dims"] = dims
    if case.get("fact") is not None:
        f = dict(case["fact"])
        K = f["K"] or 1
        f["values"] = [((i * 7 + a + (i // K) * 3) % 41) - 20 for i in range(N * K)]
        f["valid"] = [((i + b) % 11) != 0 or case.get("valid") == "all" for i in range(N * K)]
        if case.get("valid") == "one":
            f["valid"] = [True] * (N * K)
            f["valid"][((a * 7919 + b * 104729 + c) % N) * K] = False  # a single blank in a long column
        f["junk"] = [i % 3 for i in range(N * K)]
        case["fact"] = f
    if case.get("weights") is not None:
        w = dict(case["weights"])
        if w.get("ones"):
            w["values"] = [1 if w["dtype"] == "int" else 1024] * N
            w["valid"] = [True] * N if w["dtype"] == "int" else [((i + a) % 13) != 0 or case.get("valid") in ("all", "one")
                                                                 for i in range(N)]
        elif w["dtype"] == "int":
            w["values"] = [(i + c) % 4 for i in range(N)]
            w["valid"] = [True] * N
        else:
            w["values"] = [512 * ((i + c) % 5) for i in range(N)] if w.get("zero_ok", True) else [
                512 * (1 + (i + c) % 4) for i in range(N)]
            w["valid"] = [((i + a) % 13) != 0 or case.get("valid") in ("all", "one") for i in range(N)]
        w["junk"] = [i % 3 for i in range(N)]
        case["weights"] = w
    case["expanded"] = True
    return case
