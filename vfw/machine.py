"""Model-based state machine over iindex operations (C06, C07, C15; also feeds C10 and C17).

`World.apply(op)` interprets one concrete, JSON-serialisable operation on the real
indexes and on dense NumPy models; a history is a list of such operations, so a
failing Hypothesis run is replayed by feeding the recorded list to a fresh World.
The Hypothesis RuleBasedStateMachine only *draws* operations (with knowledge of
the current state, so every generated operation is in the documented domain).
"""
import itertools
import os

from hypothesis import strategies as st
from hypothesis.stateful import RuleBasedStateMachine, initialize, rule

from .core import Violation, libcall
from .cubes import build_index, dense_of

PALETTE = [-3, -2, -1, 0, 1, 2, 3, 4, 5, 255, 256, 70000]
MAX_LIVE = 6
NON_INDEXES = ["dict", "list", "tuple", "none", "int", "str", "ndarray", "dict_of_entries", "to_dict", "set"]


def _np():
    import numpy

    return numpy


def snapshot_index(ix):
    return (ix.shape, ix.common, tuple(sorted((k, v.dtype.str, v.tobytes()) for k, v in ix.items())))


class Obj(object):
    def __init__(self, ix, model, born):
        self.ix = ix
        self.model = model
        self.born = born  # name of the op that created it


class World(object):
    def __init__(self, mode, rec=None):
        self.mode = mode  # "C06" | "C07" | "C15"
        self.rec = rec
        self.objs = []
        self.steps = 0
        self.flags = set()
        self.mutations = 0

    # ----------------------------------------------------------------- helpers
    def fail(self, prop, msg, sig):
        """Raise a violation if it belongs to the property this world is deciding."""
        if prop == self.mode:
            raise Violation(msg, sig=sig)

    def push(self, ix, model, born):
        np = _np()
        if self.mode != "C06":
            model = self.safe_dense(ix)
        self.objs.append(Obj(ix, np.array(model, dtype=np.int64), born))
        if len(self.objs) > MAX_LIVE:
            del self.objs[0]

    def lib(self, what):
        if self.mode == "C06":
            return libcall(what)
        return _Quiet(self, what)

    # ----------------------------------------------------------------- apply
    def apply(self, op):
        name = op["op"]
        self.steps += 1
        try:
            watch = []
            if op.get("obs") and self.mode == "C06":
                # forced reads (which may fill memos inside the index) right before and right after the operation
                for key in ("i", "j"):
                    if isinstance(op.get(key), int) and op[key] < len(self.objs) and self.objs[op[key]].ix.ndim <= 2:
                        watch.append(self.objs[op[key]])
                for o in watch:
                    self.observe_obj(o)
                self.flags.add("forced reads around an operation")
            getattr(self, "op_" + name)(op)
            if op.get("twice") and name in ("setop", "update", "shift"):
                # idempotent operations applied a second time with the same arguments change nothing
                getattr(self, "op_" + name)(op)
                self.flags.add("idempotent operation applied twice")
            for o in watch:
                self.observe_obj(o)
        except _Abort:
            # the library raised inside an operation while deciding C07 / C15:
            # that is C06's business; this history ends here
            self.flags.add("operation raised (C06 decides that)")
            return False
        self.invariants(op)
        return True

    # ----------------------------------------------------------------- operations
    def op_new(self, op):
        np = _np()
        dense = np.array(op["dense"], dtype=np.int64).reshape(op["shape"])
        ix = build_index(dense, op["common"], readonly=op.get("readonly", False), reverse=bool(op.get("reverse")))
        self.push(ix, dense, "new")

    def op_from_array(self, op):
        np = _np()
        from catii import iindex

        dense = np.array(op["dense"], dtype=np.int64).reshape(op["shape"])
        with self.lib("from_array"):
            ix = iindex.from_array(dense.copy())
        self.push(ix, dense, "from_array")
        self.check_most_frequent(self.objs[-1], "from_array without a common value")

    def op_twin(self, op):
        o = self.objs[op["i"]]
        ix = build_index(o.model, op["common"])
        with self.lib("shift_common(v)"):
            ix.shift_common(o.ix.common)
        self.push(ix, o.model.copy(), "twin")

    def op_neighbour(self, op):
        """An index that differs from a live one in a single cell (another value already present there): the same
        shape, common value, key set and number of row ids - only the boundary between two entries moves."""
        o = self.objs[op["i"]]
        model = o.model.copy()
        model[tuple(op["cell"])] = op["v"]
        self.push(build_index(model, o.ix.common), model, "neighbour")
        self.flags.add("one-cell neighbour of a live index")

    def op_shift(self, op):
        o = self.objs[op["i"]]
        with self.lib("shift_common(%r)" % (op["v"],)):
            if op["v"] is None:
                o.ix.shift_common()
            else:
                o.ix.shift_common(op["v"])
        self.mutations += 1
        self.flags.add("shift")
        o.born = "shift"
        if op["v"] is None:
            self.refresh(o)
            self.check_most_frequent(o, "shift_common()")
        elif o.ix.common != op["v"]:
            self.fail("C06", "shift_common(%r) left common = %r" % (op["v"], o.ix.common),
                      "shift_common(v) did not set the common value")

    def op_append(self, op):
        np = _np()
        o = self.objs[op["i"]]
        if "j" in op:
            other_o = self.objs[op["j"]]
            other, other_model = other_o.ix, other_o.model
        else:
            other_model = np.array(op["dense"], dtype=np.int64).reshape(op["shape"])
            other = build_index(other_model, op["common"])
        snap = snapshot_index(other)
        with self.lib("append"):
            o.ix.append(other)
        if snapshot_index(other) != snap:
            self.fail("C06", "append() modified the appended index", "append modified its argument")
        o.model = np.concatenate([o.model, other_model], axis=0)
        self.mutations += 1
        if "shift" in self.flags:
            self.flags.add("append after shift")
        self.flags.add("append")
        o.born = "append"
        self.refresh(o)
        self.check_most_frequent(o, "append")

    def op_update(self, op):
        np = _np()
        o = self.objs[op["i"]]
        entries = {tuple(k): np.array(r, dtype=np.uint32) for k, r in op["entries"]}
        with self.lib("update"):
            o.ix.update(entries)
        for k, r in op["entries"]:
            if len(r):
                o.model[(np.array(r, dtype=np.int64),) + tuple(k[1:])] = k[0]
        self.mutations += 1
        if "append" in self.flags:
            self.flags.add("update after append")
        o.born = "update"
        self.refresh(o)

    def op_filtered(self, op):
        np = _np()
        o = self.objs[op["i"]]
        mask = np.array(op["mask"], dtype=bool)
        if op.get("reuse"):
            # one long-lived mask buffer per length, refilled in place between calls
            bufs = self.__dict__.setdefault("maskbufs", {})
            buf = bufs.setdefault(len(mask), np.zeros(len(mask), dtype=bool))
            buf[...] = mask
            mask = buf
            self.flags.add("filtered with a refilled mask buffer")
        msnap = mask.tobytes()
        snap = snapshot_index(o.ix)
        with self.lib("filtered"):
            new = o.ix.filtered(mask, int(mask.sum()))
        if snapshot_index(o.ix) != snap or mask.tobytes() != msnap:
            self.fail("C06", "filtered() modified its receiver or mask", "filtered modified an operand")
        self.push(new, o.model[mask], "filtered")
        self.mutations += 1
        self.check_most_frequent(self.objs[-1], "filtered")

    def op_sliced(self, op):
        np = _np()
        o = self.objs[op["i"]]
        orders = [x if not isinstance(x, list) else list(x) for x in op["orders"]]
        snap = snapshot_index(o.ix)
        with self.lib("sliced"):
            new = o.ix.sliced(*orders)
        if snapshot_index(o.ix) != snap or [x if not isinstance(x, list) else list(x) for x in op["orders"]] != orders:
            self.fail("C06", "sliced() modified its receiver or arguments", "sliced modified an operand")
        m = o.model
        axis = 1
        for order in orders:
            if order is None:
                axis += 1
            elif isinstance(order, int):
                m = np.take(m, order, axis=axis)
            else:
                m = np.take(m, order, axis=axis)
                axis += 1
        self.push(new, m, "sliced")

    def op_slices1d(self, op):
        np = _np()
        o = self.objs[op["i"]]
        snap = snapshot_index(o.ix)
        with self.lib("slices1d"):
            got = [(tuple(c), s) for c, s in o.ix.slices1d()]
        if snapshot_index(o.ix) != snap:
            self.fail("C06", "slices1d() modified its receiver", "slices1d modified receiver")
        want = {}
        for hi in itertools.product(*[range(e) for e in o.model.shape[1:]]):
            want[hi] = o.model[(slice(None),) + hi]
        labels = [c for c, _ in got]
        if sorted(labels) != sorted(want) or len(set(labels)) != len(labels):
            self.fail("C06", "slices1d() yielded labels %s, expected each of %s once" % (labels, sorted(want)),
                      "slices1d labels")
            return
        for c, s in got:
            if s.shape != (o.model.shape[0],) or not np.array_equal(dense_of(s), want[c]):
                self.fail("C06", "slices1d(): slice labelled %s is not column %s of the array" % (c, c),
                          "slices1d slice content")
                return

    def op_reindexed(self, op):
        np = _np()
        o = self.objs[op["i"]]
        mapping = None if op["mapping"] is None else {k: v for k, v in op["mapping"]}
        msnap = None if mapping is None else dict(mapping)
        snap = snapshot_index(o.ix)
        with self.lib("reindexed"):
            new = o.ix.reindexed(mapping, copy=op["copy"], shift=op["shift"],
                                 assume_unique=op["assume_unique"])
        if snapshot_index(o.ix) != snap or mapping != msnap:
            self.fail("C06", "reindexed() modified its receiver or mapping", "reindexed modified an operand")
        if mapping is None:
            common = o.ix.common
            listed = sorted(set(o.model.reshape(-1).tolist()) - {common})
            m = {v: i for i, v in enumerate(listed)}
            self.flags.add("reindexed default mapping")
        else:
            m = mapping
            if len(set(m.values())) < len(m) or any(v == m.get(o.ix.common, o.ix.common) for k, v in m.items()
                                                    if k != o.ix.common):
                self.flags.add("reindex with a merge")
        flat = [m.get(x, x) for x in o.model.reshape(-1).tolist()]
        model = np.array(flat, dtype=np.int64).reshape(o.model.shape)
        if op["copy"]:
            self.check_no_shared(new, [o.ix], "reindexed(copy=True)")
        self.push(new, model, "reindexed")
        self.mutations += 1

    def op_collapsed(self, op):
        np = _np()
        o = self.objs[op["i"]]
        prec = list(op["precedence"])
        snap = snapshot_index(o.ix)
        with self.lib("collapsed"):
            new = o.ix.collapsed(prec)
        if snapshot_index(o.ix) != snap or prec != list(op["precedence"]):
            self.fail("C06", "collapsed() modified its receiver or precedence list", "collapsed modified an operand")
        rows = o.model.tolist()
        out = []
        omitted = False
        for row in rows:
            present = set(row)
            if present - set(prec):
                omitted = True
            for p in prec:
                if p in present:
                    out.append(p)
                    break
            else:
                out.append(prec[-1])
        if omitted:
            self.flags.add("collapse with an omitted present value")
        self.push(new, np.array(out, dtype=np.int64).reshape((len(rows),)), "collapsed")
        self.mutations += 1
        self.check_most_frequent(self.objs[-1], "collapsed")

    def op_copy(self, op):
        o = self.objs[op["i"]]
        snap = snapshot_index(o.ix)
        with self.lib("copy"):
            new = o.ix.copy()
        if snapshot_index(o.ix) != snap:
            self.fail("C06", "copy() modified its receiver", "copy modified receiver")
        if snapshot_index(new) != snap:
            self.fail("C06", "copy() is not an exact copy", "copy differs")
        self.check_no_shared(new, [o.ix], "copy()")
        self.push(new, o.model.copy(), "copy")

    def op_column_stack(self, op):
        np = _np()
        from catii.iindexes import column_stack

        items = [self.objs[i] for i in op["items"]]
        snaps = [snapshot_index(x.ix) for x in items]
        lst = [x.ix for x in items]
        with self.lib("column_stack"):
            new = column_stack(lst, new_common=op["new_common"], copy=op["copy"])
        if [snapshot_index(x.ix) for x in items] != snaps or lst != [x.ix for x in items]:
            self.fail("C06", "column_stack() modified one of its inputs", "column_stack modified an input")
        model = np.column_stack([x.model for x in items])
        if op["copy"]:
            self.check_no_shared(new, lst, "column_stack(copy=True)")
        self.push(new, model, "column_stack")
        self.mutations += 1

    def op_setop(self, op):
        np = _np()
        from catii import iindex

        o = self.objs[op["i"]]
        kind = op["kind"]
        ents = {tuple(k): (None if r is None else np.array(r, dtype=np.uint32)) for k, r in op["entries"]}
        if op["as_index"]:
            other = iindex({k: v for k, v in ents.items() if v is not None}, op.get("other_common", 12345),
                           o.ix.shape)
            ents = {k: v for k, v in ents.items() if v is not None}
        else:
            other = dict(ents)
        snap_other = sorted((k, None if v is None else v.tobytes()) for k, v in other.items())
        # dict-of-sets model of the receiver's entries
        E = {}
        common = o.ix.common
        for hi in itertools.product(*[range(e) for e in o.model.shape[1:]]):
            col = o.model[(slice(None),) + hi]
            for v in set(col.tolist()) - {common}:
                E[(v,) + hi] = set(np.nonzero(col == v)[0].tolist())
        with self.lib(kind + "_update"):
            getattr(o.ix, kind + "_update")(other)
        if sorted((k, None if v is None else v.tobytes()) for k, v in other.items()) != snap_other:
            self.fail("C06", "%s_update() modified its argument" % kind, "set update modified its argument")
        O = {k: (None if v is None else set(v.tolist())) for k, v in ents.items()}
        if kind == "union":
            for k, s in O.items():
                if s is not None:
                    E[k] = E.get(k, set()) | s
        elif kind == "intersection":
            for k in list(E):
                if k not in O:
                    del E[k]
                elif O[k] is not None:
                    E[k] &= O[k]
        else:
            for k, s in O.items():
                if s is not None and k in E:
                    E[k] -= s
        model = np.full(o.model.shape, common, dtype=np.int64)
        for k, s in E.items():
            if s:
                model[(np.array(sorted(s), dtype=np.int64),) + k[1:]] = k[0]
        o.model = model
        self.mutations += 1
        o.born = kind + "_update"
        self.refresh(o)

    def op_observe(self, op):
        self.observe_obj(self.objs[op["i"]])

    def observe_obj(self, o):
        np = _np()
        ix, m = o.ix, o.model
        snap = snapshot_index(ix)
        cols = [()] if m.ndim == 1 else [(c,) for c in range(m.shape[1])]
        values = sorted(set(m.reshape(-1).tolist()) | {ix.common, 77})
        with self.lib("get / items / to_dict / common_rowids"):
            forced = {}
            for k, v in ix.items(force=True):
                forced.setdefault(k, []).append(np.asarray(v).tolist())
            td = ix.to_dict(force=True)
            gets = {}
            for col in cols:
                for v in values:
                    g = ix.get((v,) + col, force=True)
                    gets[(v,) + col] = None if g is None else np.asarray(g).tolist()
                    d1 = ix.get((v,) + col, "absent", force=True)
                    d2 = ix.get((v,) + col, default="absent")
                    if (g is None) != (isinstance(d1, str)) or (v != ix.common and (g is None) != isinstance(d2, str)):
                        self.fail("C06", "get(%r, default) does not return the default exactly when the key has no rows"
                                  % ((v,) + col,), "get default")
            crs = {col: ix.common_rowids(*col) for col in cols}
        if snapshot_index(ix) != snap:
            self.fail("C06", "an observer (get/items/to_dict/common_rowids) modified the index",
                      "observer modified the index")
        for col in cols:
            colarr = m if m.ndim == 1 else m[:, col[0]]
            for v in values:
                rows = np.nonzero(colarr == v)[0].tolist()
                key = (v,) + col
                if gets[key] != (rows or None):
                    self.fail("C06", "get(%r, force=True) = %s, rows with that value: %s" % (key, gets[key], rows),
                              "get(force=True)")
                if v == ix.common:
                    if forced.get(key) != [rows] or td.get(key) != rows:
                        self.fail("C06", "items/to_dict(force=True) give %s / %s for the common key %r, rows %s"
                                  % (forced.get(key), td.get(key), key, rows), "items(force=True) common")
                    cr = crs[col]
                    if cr.tolist() != rows or cr.dtype != np.uint32:
                        self.fail("C06", "common_rowids%r = %s, expected %s" % (col, cr.tolist(), rows),
                                  "common_rowids")
                elif rows:
                    if forced.get(key) != [rows] or td.get(key) != rows:
                        self.fail("C06", "items/to_dict(force=True) give %s for %r, rows %s"
                                  % (forced.get(key), key, rows), "items(force=True) entries")
                elif key in forced:
                    self.fail("C06", "items(force=True) lists %r which has no rows" % (key,),
                              "items(force=True) empty entry")
        expected_keys = {(v,) + col for col in cols for v in set(
            (m if m.ndim == 1 else m[:, col[0]]).tolist()) | {ix.common}}
        if set(forced) != expected_keys:
            self.fail("C06", "items(force=True) keys %s, expected %s" % (sorted(forced), sorted(expected_keys)),
                      "items(force=True) key set")

    def op_indx(self, op):
        np = _np()
        from catii import iindex
        from catii.indxio import IndxIO

        from . import indxgen

        o = self.objs[op["i"]]
        path = os.path.join(indxgen.scratch_dir(), "machine.indx")
        with self.lib("IndxIO.save/load"):
            with open(path, "wb") as f:
                IndxIO.save(f, dict(o.ix), o.ix.common, np.dtype(np.uint32))
            with open(path, "rb") as f:
                entries, common, _ = IndxIO.load(f)
                new = iindex({k: np.array(v) for k, v in entries.items()}, common, o.ix.shape)
        self.push(new, o.model.copy(), "indx")
        if self.mode == "C07" and not (new == o.ix):
            raise Violation("index reloaded from INDX differs from the saved one", sig="INDX reload differs")

    # ----------------------------------------------------------------- checks
    def refresh(self, o):
        if self.mode != "C06":
            o.model = self.safe_dense(o.ix)

    def safe_dense(self, ix):
        """dense_of for generation purposes; an ill-formed index is C07's finding, not a harness error."""
        np = _np()
        try:
            return dense_of(ix)
        except Exception:
            if self.mode == "C07":
                wellformed(ix, "index just produced", "?")
            raise _Abort()

    def check_no_shared(self, new, sources, what):
        np = _np()
        for a in new.values():
            for src in sources:
                for b in src.values():
                    if np.shares_memory(a, b):
                        self.fail("C06", "%s shares storage with its source" % what,
                                  "requested copy shares storage")
                        return

    def check_most_frequent(self, o, what):
        if self.mode != "C15":
            return
        np = _np()
        d = dense_of(o.ix)
        if d.size == 0:
            return
        vals, counts = np.unique(d, return_counts=True)
        cc = int((d == o.ix.common).sum())
        if cc != int(counts.max()):
            raise Violation("after %s the common value %r occurs %d times but %r occurs %d times" % (
                what, o.ix.common, cc, int(vals[counts.argmax()]), int(counts.max())),
                sig="chosen common is not a most frequent value (%s)" % what.split("(")[0])
        self.flags.add("normalisation checked")

    def invariants(self, op):
        np = _np()
        if self.mode == "C06":
            for n, o in enumerate(self.objs):
                with libcall("reading the index"):
                    d = dense_of(o.ix)
                if d.shape != o.model.shape or not np.array_equal(d, o.model):
                    raise Violation(
                        "after %s: index #%d (made by %s) stands for\n%s\nbut NumPy gives\n%s" % (
                            op["op"], n, o.born, d.tolist(), o.model.tolist()),
                        sig="%s does not track NumPy" % o.born)
                if o.ix.ndim <= 2:
                    with libcall("to_array(dtype=int)"):
                        ta = o.ix.to_array(dtype=np.int64)
                    if ta.shape != o.model.shape or not np.array_equal(ta, o.model):
                        raise Violation("after %s: to_array(dtype=int) of index #%d differs from NumPy"
                                        % (op["op"], n), sig="to_array after %s" % o.born)
        elif self.mode == "C07":
            for n, o in enumerate(self.objs):
                wellformed(o.ix, "after %s: index #%d (made by %s)" % (op["op"], n, o.born), o.born)
        elif self.mode == "C15":
            self.equality_checks(op)
        elif self.mode == "C10":
            self.indx_roundtrips(op)
        elif self.mode == "C02":
            self.count_cubes(op)

    def count_cubes(self, op):
        """C02 over indexes with a history: the count cube of every live non-negative index (alone, and crossed
        with another live index of the same length) equals the table counted from the dense model."""
        np = _np()
        from catii import ccube

        live = [(n, o) for n, o in enumerate(self.objs)
                if o.ix.common >= 0 and all(k[0] >= 0 for k in o.ix) and o.model.size
                and int(o.model.max()) <= 300 and o.ix.common <= 300]
        for n, o in live:
            groups = [[o]]
            for m, p in live:
                if m > n and p.ix.shape[0] == o.ix.shape[0]:
                    groups.append([o, p])
                    break
            for grp in groups:
                tails = [g.model.shape[1:] for g in grp]
                nsub = 1
                for t in tails:
                    for e in t:
                        nsub *= e
                if nsub > 24:
                    continue
                with libcall("ccube(indexes made by %s).count()" % "/".join(g.born for g in grp)):
                    res = ccube([g.ix for g in grp]).count(return_missing_as=(0, False))
                vals, valid = res
                ext = [max(int(g.model.max()), g.ix.common) + 1 for g in grp]
                for pos in itertools.product(*[itertools.product(*[range(e) for e in t]) for t in tails]):
                    cols = [g.model[(slice(None),) + pp] for g, pp in zip(grp, pos)]
                    want = np.zeros(ext, dtype=np.int64)
                    np.add.at(want, tuple(cols), 1)
                    flat = tuple(x for pp in pos for x in pp)
                    got = np.asarray(vals)[flat]
                    gvalid = np.asarray(valid)[flat]
                    if got.shape != want.shape or not np.array_equal(np.where(gvalid, got, 0), want) \
                            or not np.array_equal(gvalid, want > 0):
                        raise Violation(
                            "after %s: count cube over index(es) made by %s, block %s, is\n%s\nbut the rows give\n%s" % (
                                op["op"], "/".join(g.born for g in grp), flat, np.where(gvalid, got, 0).tolist(),
                                want.tolist()), sig="count cube wrong after %s" % grp[0].born)
                self.flags.add("cube over an index made by " + grp[0].born)
                if self.rec is not None:
                    self.rec.count("cubes_checked", 1)

    def indx_roundtrips(self, op):
        """C10 over machine-made indexes: save -> load is the identity for every non-negative live index."""
        np = _np()
        from catii import iindex
        from catii.indxio import IndxIO

        from . import indxgen
        from .props import c10

        path = os.path.join(indxgen.scratch_dir(), "machine10.indx")
        for n, o in enumerate(self.objs):
            ix = o.ix
            if ix.common < 0 or any(k[0] < 0 for k in ix):
                continue
            if getattr(o, "saved", None) == snapshot_index(ix):
                continue
            case = {"common": ix.common, "arity": ix.ndim,
                    "entries": [[list(k), v.tolist()] for k, v in ix.items()]}
            with libcall("IndxIO.save(index #%d made by %s)" % (n, o.born)):
                with open(path, "wb") as f:
                    IndxIO.save(f, dict(ix), ix.common, np.dtype(np.uint32))
            with open(path, "rb") as f:
                with libcall("IndxIO.load"):
                    loaded = IndxIO.load(f)
                c10.compare_loaded(case, loaded, "load(save(index made by %s))" % o.born)
                entries, common, _ = loaded
                rebuilt = iindex({k: np.array(v) for k, v in entries.items()}, common, ix.shape)
                del loaded, entries
            if not (rebuilt == ix):
                raise Violation("index made by %s: rebuilt from its INDX file it is != the saved one" % o.born,
                                sig="reloaded index differs")
            try:
                rebuilt.validate()
            except ValueError as e:
                try:
                    ix.validate()
                except ValueError:
                    pass
                else:
                    raise Violation("reloaded index fails validate(): %s" % e, sig="reloaded index invalid")
            o.saved = snapshot_index(ix)
            self.flags.add("roundtrip of an index made by " + o.born)
            if self.rec is not None:
                self.rec.count("indx_roundtrips", 1)

    def equality_checks(self, op):
        np = _np()
        objs = self.objs
        dens = [dense_of(o.ix) for o in objs]
        for a_i, a in enumerate(objs):
            twin = build_index(dens[a_i], a.ix.common)
            try:
                if not (a.ix == twin) or not (twin == a.ix):
                    raise Violation("index #%d (made by %s, %r) != the index built directly from its own dense "
                                    "content and common value" % (a_i, a.born, a.ix), sig="index != directly built twin (%s)" % a.born)
                if (a.ix != twin) or not (a.ix == a.ix) or (a.ix != a.ix):
                    raise Violation("!= / reflexivity broken for index #%d" % a_i, sig="!= is not the negation of ==")
            except Violation:
                raise
            except Exception as e:
                raise Violation("comparison raised %s: %s" % (type(e).__name__, e), sig="comparison raised " + type(e).__name__)
            for b_i, b in enumerate(objs):
                want = (a.ix.shape == b.ix.shape and a.ix.common == b.ix.common
                        and dens[a_i].shape == dens[b_i].shape and bool(np.array_equal(dens[a_i], dens[b_i])))
                try:
                    eq = bool(a.ix == b.ix)
                    ne = bool(a.ix != b.ix)
                except Exception as e:
                    raise Violation("comparing index #%d with #%d raised %s: %s" % (a_i, b_i, type(e).__name__, e),
                                    sig="comparison raised " + type(e).__name__)
                if eq != want:
                    raise Violation("index #%d == index #%d is %s but (shape, common, dense content) %s" % (
                        a_i, b_i, eq, "coincide" if want else "differ"), sig="== is not canonical")
                if ne != (not eq):
                    raise Violation("(a != b) is %s while (a == b) is %s" % (ne, eq), sig="!= is not the negation of ==")
                if a_i != b_i:
                    if want:
                        self.flags.add("equal content reached by different histories")
                    elif (set(a.ix) == set(b.ix) and a.ix.shape == b.ix.shape and a.ix.common == b.ix.common):
                        self.flags.add("equal keys but different row ids")
            for kind in NON_INDEXES:
                x = {"dict": {}, "list": [], "tuple": (), "none": None, "int": 0, "str": "x",
                     "ndarray": np.zeros(a.ix.shape), "set": set(),
                     # plain dicts that look like the index's own entries are still not indexes
                     "dict_of_entries": dict(a.ix), "to_dict": a.ix.to_dict()}[kind]
                try:
                    eq = a.ix == x
                    ne = a.ix != x
                except Exception as e:
                    raise Violation("comparing an index with a %s raised %s: %s" % (kind, type(e).__name__, e),
                                    sig="comparison with non-index raised")
                try:
                    wrong = bool(eq) or not bool(ne)
                except Exception as e:
                    raise Violation("comparing an index with a %s gave a non-boolean (%s)" % (kind, e),
                                    sig="comparison with non-index raised")
                if wrong:
                    raise Violation("index == %s gave %r, != gave %r" % (kind, eq, ne),
                                    sig="comparison with a non-index is not False")


class _Abort(Exception):
    pass


class _Quiet(object):
    """In C07 / C15 mode a raising operation ends the history instead of being reported."""

    def __init__(self, world, what):
        self.world = world

    def __enter__(self):
        return self

    def __exit__(self, et, ev, tb):
        if et is not None and issubclass(et, Exception) and not issubclass(et, Violation):
            raise _Abort() from ev
        return False


def wellformed(ix, where, born="?"):
    """C07 predicate: the library's comprehensive validator plus what it does not check."""
    np = _np()
    from catii import ccube

    def bad(msg, sig):
        raise Violation("%s is not well-formed: %s (%r)" % (where, msg, ix), sig="%s -> %s" % (born, sig))

    try:
        ix.validate(check_comprehensive_unique=True)
    except ValueError as e:
        bad("validate() says %s" % e, "validate() fails")
    if type(ix.shape) is not tuple or any(type(s) is not int for s in ix.shape):
        bad("shape %r" % (ix.shape,), "shape types")
    n = ix.shape[0]
    for k, v in ix.items():
        if type(k) is not tuple or len(k) != len(ix.shape):
            bad("key %r has arity %d for %d axes" % (k, len(k), len(ix.shape)), "key arity")
        if any(type(c) is not int for c in k):
            bad("key %r holds non-int coordinates" % (k,), "key element types")
        if any(not (0 <= c < e) for c, e in zip(k[1:], ix.shape[1:])):
            bad("key %r outside shape %r" % (k, ix.shape), "higher coordinate out of range")
        if k[0] == ix.common:
            bad("entry listed under the common value", "entry under common")
        if not isinstance(v, np.ndarray) or v.dtype != np.uint32 or v.ndim != 1:
            bad("entry %r is not a 1-D uint32 array" % (k,), "entry dtype")
        if len(v) == 0:
            bad("entry %r is empty" % (k,), "empty entry")
        if int(v.max()) >= n:
            bad("entry %r lists row %d >= %d rows" % (k, int(v.max()), n), "row id out of range")
        vl = v.tolist()
        if any(b <= a for a, b in zip(vl, vl[1:])):
            bad("entry %r not strictly increasing" % (k,), "row ids not increasing")
    d = dense_of(ix)
    vals = set(d.reshape(-1).tolist())
    ab = ix.abscissae
    if ab != vals:
        bad("abscissae %s but the values that occur are %s" % (sorted(ab), sorted(vals)), "abscissae")
    size = d.size
    want_sp = (100.0 * int((d == ix.common).sum()) / size) if size else 0
    if abs(ix.sparsity - want_sp) > 1e-9:
        bad("sparsity %r, expected %r" % (ix.sparsity, want_sp), "sparsity")
    if all(v >= 0 for v in vals | {ix.common}):
        want_shape = tuple(ix.shape[1:]) + (max(vals | {ix.common}) + 1,)
        got = ccube([ix]).shape
        if tuple(got) != want_shape:
            bad("inferred cube shape %r, expected %r" % (tuple(got), want_shape), "inferred cube shape")


# --------------------------------------------------------------------------- #
# Hypothesis machine: draws operations with knowledge of the current state


def dense_strategy(shape, palette):
    size = 1
    for s in shape:
        size *= s
    k = len(palette)
    return st.lists(st.integers(0, 3 * k - 1), min_size=size, max_size=size).map(
        lambda xs: [palette[x] if x < k else palette[0] for x in xs])


def sorted_rowids(n, max_len=None):
    if n == 0:
        return st.just([])
    return st.lists(st.integers(0, n - 1), unique=True, max_size=max_len or n).map(sorted)


def make_machine(mode, rec, tier, guard=None):
    from .core import ShrinkGuard

    max_rows = 12 if tier == "quick" else 16
    if guard is None:
        guard = ShrinkGuard(rec, tier)

    class IndexMachine(RuleBasedStateMachine):
        def __init__(self):
            RuleBasedStateMachine.__init__(self)
            self.world = World(mode, rec)
            self.case = {"mode": mode, "ops": []}
            rec.begin(self.case)
            self.dead = False

        def do(self, op):
            if self.dead:
                return
            if guard.exhausted():
                self.dead = True
                return
            self.case["ops"].append(op)
            with guard:
                if not self.world.apply(op):
                    self.dead = True

        def teardown(self):
            w = self.world
            rec.count("steps", w.steps)
            for f in w.flags:
                rec.note(f)
            for o in self.case["ops"]:
                rec.note("op=" + o["op"] + ("/" + o["kind"] if o["op"] == "setop" else ""))
            nontrivial_history(mode, w, self.case, rec)

        # ---- drawing helpers
        def palette(self, data):
            return data.draw(st.sampled_from([[0, 1, 2, 3], [0, 1, 2, 3, 4, 5], [-1, 0, 1], [1, 0, -3, 2],
                                              [0, 1, 255, 256], [2, 0, 70000, 1], [0, 1]]), label="palette")

        def pick(self, data, pred=lambda o: True):
            if self.dead:
                return None
            idxs = [i for i, o in enumerate(self.world.objs) if pred(o)]
            return data.draw(st.sampled_from(idxs), label="object") if idxs else None

        def draw_new(self, data, tail=None, rows=None):
            pal = self.palette(data)
            if tail is None:
                tail = data.draw(st.sampled_from([(), (), (1,), (2,), (3,), (4,), (2, 2), (3, 2)]), label="tail")
            if rows is None:
                n = data.draw(st.one_of(st.integers(0, max_rows), st.integers(0, max_rows),
                                        st.integers(0, max_rows), st.integers(24, 72)), label="rows")
                if n > max_rows:
                    tail = tail if len(tail) == 0 else (min(tail[0], 2),) + tuple(tail[1:2])
                    pal = pal[:3]
            else:
                n = rows
            shape = (n,) + tuple(tail)
            dense = data.draw(dense_strategy(shape, pal), label="dense")
            common = data.draw(st.sampled_from(pal + [pal[0], 9]), label="common")
            return {"dense": dense, "shape": list(shape), "common": common,
                    "readonly": data.draw(st.sampled_from([False, False, False, True, "strided", "lists"]),
                                          label="rowid layout"),
                    "reverse": data.draw(st.booleans(), label="reverse entry order")}

        @initialize(data=st.data())
        def init(self, data):
            op = self.draw_new(data)
            op["op"] = "new"
            self.do(op)

        def alive(fn):
            return fn

        @alive
        @rule(data=st.data())
        def new(self, data):
            if self.dead:
                return
            op = self.draw_new(data)
            op["op"] = data.draw(st.sampled_from(["new", "new", "from_array"]))
            if op["op"] == "from_array":
                if len(op["shape"]) > 2 or op["shape"][0] == 0 or 0 in op["shape"]:
                    op["op"] = "new"
                else:
                    op.pop("common")
            self.do(op)

        @alive
        @rule(data=st.data())
        def twin(self, data):
            i = self.pick(data, lambda o: o.ix.ndim <= 2)
            if i is None:
                return
            o = self.world.objs[i]
            vals = sorted(set(o.model.reshape(-1).tolist()) | {o.ix.common, 9})
            self.do({"op": "twin", "i": i, "common": data.draw(st.sampled_from(vals))})

        @alive
        @rule(data=st.data())
        def neighbour(self, data):
            i = self.pick(data, lambda o: o.ix.ndim <= 2 and o.model.size > 0)
            if i is None:
                return
            o = self.world.objs[i]
            flat = o.model.reshape(-1).tolist()
            others = sorted(set(flat) - {o.ix.common})
            cells = [n for n, v in enumerate(flat) if v != o.ix.common]
            if len(others) < 2 or not cells:
                return
            n = data.draw(st.sampled_from(cells), label="cell")
            v = data.draw(st.sampled_from([x for x in others if x != flat[n]]), label="value")
            cell = [int(x) for x in _np().unravel_index(n, o.model.shape)]
            self.do({"op": "neighbour", "i": i, "cell": cell, "v": v})

        @alive
        @rule(data=st.data())
        def shift(self, data):
            i = self.pick(data, lambda o: o.ix.ndim <= 2)
            if i is None:
                return
            o = self.world.objs[i]
            vals = sorted(set(o.model.reshape(-1).tolist()) | {o.ix.common, 9, -7})
            v = data.draw(st.one_of(st.none(), st.sampled_from(vals)))
            self.do({"op": "shift", "i": i, "v": v, "obs": data.draw(st.booleans(), label="observe around"),
                     "twice": data.draw(st.sampled_from([False, False, True]), label="twice")})

        @alive
        @rule(data=st.data())
        def append(self, data):
            i = self.pick(data, lambda o: o.ix.ndim <= 2 and o.ix.shape[0] <= 40)
            if i is None:
                return
            o = self.world.objs[i]
            js = [j for j, p in enumerate(self.world.objs)
                  if j != i and p.ix.shape[1:] == o.ix.shape[1:] and p.ix.shape[0] <= 6]
            if js and data.draw(st.booleans()):
                self.do({"op": "append", "i": i, "j": data.draw(st.sampled_from(js)),
                         "obs": data.draw(st.booleans(), label="observe around")})
                return
            op = self.draw_new(data, tail=o.ix.shape[1:], rows=data.draw(st.integers(0, 5)))
            op.update({"op": "append", "i": i, "obs": data.draw(st.booleans(), label="observe around")})
            self.do(op)

        @alive
        @rule(data=st.data())
        def update(self, data):
            i = self.pick(data, lambda o: o.ix.ndim <= 2 and o.model.size > 0)
            if i is None:
                return
            o = self.world.objs[i]
            m = o.model
            vals = sorted(set(m.reshape(-1).tolist()) | {o.ix.common, 9})
            cells = data.draw(st.lists(st.tuples(*[st.integers(0, e - 1) for e in m.shape]), unique=True,
                                       max_size=8))
            entries = {}
            for cell in cells:
                v = data.draw(st.sampled_from(vals))
                entries.setdefault((v,) + tuple(cell[1:]), []).append(cell[0])
            self.do({"op": "update", "i": i, "obs": data.draw(st.booleans(), label="observe around"),
                     "twice": data.draw(st.sampled_from([False, False, True]), label="twice"),
                     "entries": [[list(k), sorted(r)] for k, r in sorted(entries.items())]})

        @alive
        @rule(data=st.data())
        def filtered(self, data):
            i = self.pick(data, lambda o: o.ix.ndim <= 2)
            if i is None:
                return
            n = self.world.objs[i].model.shape[0]
            mask = data.draw(st.lists(st.booleans(), min_size=n, max_size=n))
            if data.draw(st.integers(0, 7)) == 0:
                mask = [True] * n  # nothing filtered out: a no-op
            prev = getattr(self, "last_mask", None)
            if prev is not None and len(prev) == n and data.draw(st.booleans(), label="permute previous mask"):
                mask = data.draw(st.permutations(prev))  # same length and popcount as the previous call's mask
            self.last_mask = list(mask)
            self.do({"op": "filtered", "i": i, "mask": list(mask), "reuse": data.draw(st.booleans(), label="reuse buffer")})

        @alive
        @rule(data=st.data())
        def sliced(self, data):
            i = self.pick(data, lambda o: o.ix.ndim >= 2)
            if i is None:
                return
            o = self.world.objs[i]
            orders = []
            for e in o.model.shape[1:]:
                kind = data.draw(st.sampled_from(["int", "list", "none"]))
                if kind == "int":
                    orders.append(data.draw(st.integers(0, e - 1)))
                elif kind == "list":
                    orders.append(data.draw(st.lists(st.integers(0, e - 1), unique=True, min_size=1, max_size=e)))
                else:
                    orders.append(None)
            self.do({"op": "sliced", "i": i, "orders": orders})

        @alive
        @rule(data=st.data())
        def slices1d(self, data):
            i = self.pick(data)
            if i is not None:
                self.do({"op": "slices1d", "i": i})

        @alive
        @rule(data=st.data())
        def reindexed(self, data):
            i = self.pick(data, lambda o: o.ix.ndim <= 2)
            if i is None:
                return
            o = self.world.objs[i]
            vals = sorted(set(o.model.reshape(-1).tolist()) | {o.ix.common})
            kind = data.draw(st.integers(0, 5))
            if kind == 0:
                mapping = None
            elif kind == 1:
                mapping = [[v, v] for v in vals]  # the identity: a no-op re-index
            else:
                keys = data.draw(st.lists(st.sampled_from(vals + [9]), unique=True, max_size=len(vals) + 1))
                targets = vals + [9, 0, 1, -1, o.ix.common]
                mapping = [[k, data.draw(st.sampled_from(targets))] for k in keys]
            self.do({"op": "reindexed", "i": i, "mapping": mapping, "copy": data.draw(st.booleans()),
                     "shift": data.draw(st.booleans()), "assume_unique": data.draw(st.booleans())})

        @alive
        @rule(data=st.data())
        def collapsed(self, data):
            i = self.pick(data, lambda o: o.ix.ndim == 2 and o.model.shape[1] >= 1)
            if i is None:
                return
            o = self.world.objs[i]
            vals = sorted(set(o.model.reshape(-1).tolist()) | {o.ix.common, -1, 9})
            prec = data.draw(st.lists(st.sampled_from(vals), unique=True, min_size=1, max_size=len(vals)))
            self.do({"op": "collapsed", "i": i, "precedence": prec})

        @alive
        @rule(data=st.data())
        def copy(self, data):
            i = self.pick(data)
            if i is not None:
                self.do({"op": "copy", "i": i})

        @alive
        @rule(data=st.data())
        def column_stack(self, data):
            i = self.pick(data, lambda o: o.ix.ndim <= 2)
            if i is None:
                return
            n = self.world.objs[i].ix.shape[0]
            cands = [j for j, o in enumerate(self.world.objs) if o.ix.ndim <= 2 and o.ix.shape[0] == n]
            items = data.draw(st.lists(st.sampled_from(cands), min_size=1, max_size=3))
            # keep the stacked width bounded (stacking a result with itself grows geometrically)
            width = 0
            kept = []
            for j in items:
                w_ = 1 if self.world.objs[j].ix.ndim == 1 else self.world.objs[j].ix.shape[1]
                if width + w_ <= 8:
                    kept.append(j)
                    width += w_
            items = kept
            if not items:
                return
            vals = sorted({self.world.objs[j].ix.common for j in items} | {0, 9})
            nc = data.draw(st.one_of(st.none(), st.sampled_from(vals)))
            self.do({"op": "column_stack", "items": items, "new_common": nc, "copy": data.draw(st.booleans())})

        @alive
        @rule(data=st.data())
        def setop(self, data):
            i = self.pick(data, lambda o: o.ix.ndim <= 2 and o.model.size > 0)
            if i is None:
                return
            o = self.world.objs[i]
            m = o.model
            kind = data.draw(st.sampled_from(["union", "intersection", "difference"]))
            n = m.shape[0]
            cols = [()] if m.ndim == 1 else [(c,) for c in range(m.shape[1])]
            entries = []
            if kind == "union":
                # only rows that are currently common in that column may be added (C07 precondition)
                for col in cols:
                    colarr = m if m.ndim == 1 else m[:, col[0]]
                    free = [r for r in range(n) if colarr[r] == o.ix.common]
                    picked = data.draw(st.lists(st.sampled_from(free), unique=True, max_size=4)) if free else []
                    groups = {}
                    vals = sorted((set(m.reshape(-1).tolist()) | {9, 4}) - {o.ix.common})
                    for r in picked:
                        groups.setdefault(data.draw(st.sampled_from(vals)), []).append(r)
                    for v, rows in sorted(groups.items()):
                        # rows already listed under v in this column may be repeated
                        already = [r for r in range(n) if colarr[r] == v]
                        extra = data.draw(st.lists(st.sampled_from(already), unique=True, max_size=2)) if already else []
                        entries.append([[v] + list(col), sorted(set(rows) | set(extra))])
                    if data.draw(st.integers(0, 5)) == 0:
                        entries.append([[77] + list(col), None if data.draw(st.booleans()) else []])
            else:
                vals = sorted(set(m.reshape(-1).tolist()) | {9})
                keys = data.draw(st.lists(st.tuples(st.sampled_from(vals), st.sampled_from(cols)), unique=True,
                                          max_size=5))
                whole = data.draw(st.booleans(), label="entries vanish entirely")
                for v, col in keys:
                    colarr = m if m.ndim == 1 else m[:, col[0]]
                    if whole and v != o.ix.common:
                        # every touched entry disappears completely: all its rows (difference) / none (intersection)
                        rows = [r for r in range(n) if (colarr[r] == v) == (kind == "difference")]
                        r = rows if kind == "difference" else rows[:3]
                    else:
                        r = data.draw(st.one_of(st.none(), sorted_rowids(n, 8), sorted_rowids(n, 8)))
                    entries.append([[v] + list(col), r])
            self.do({"op": "setop", "kind": kind, "i": i, "entries": entries,
                     "as_index": data.draw(st.booleans()), "obs": data.draw(st.booleans(), label="observe around"),
                     "twice": data.draw(st.sampled_from([False, False, True]), label="twice")})

        @alive
        @rule(data=st.data())
        def observe(self, data):
            i = self.pick(data, lambda o: o.ix.ndim <= 2)
            if i is not None and mode == "C06":
                self.do({"op": "observe", "i": i})

        @alive
        @rule(data=st.data())
        def indx(self, data):
            i = self.pick(data, lambda o: o.ix.common >= 0 and all(k[0] >= 0 for k in o.ix))
            if i is not None and mode != "C06":
                self.do({"op": "indx", "i": i})

    return IndexMachine


def nontrivial_history(mode, w, case, rec):
    pats = {"append after shift", "update after append", "reindex with a merge",
            "collapse with an omitted present value"}
    if mode == "C02":
        ok = any(f.startswith("cube over an index made by ") and not f.endswith(" new") for f in w.flags) \
            and w.mutations >= 1
    elif mode == "C10":
        ok = any(f.startswith("roundtrip of an index made by ") and not f.endswith(" new") for f in w.flags)
    elif mode == "C15":
        ok = bool(w.flags & {"equal content reached by different histories", "equal keys but different row ids",
                             "normalisation checked"}) and w.mutations >= 1
    else:
        ok = w.mutations >= 3 and bool(w.flags & pats)
    if ok:
        rec.nontrivial(case)


def replay(case, rec):
    w = World(case["mode"], rec)
    for op in case["ops"]:
        if not w.apply(op):
            break
    rec.count("steps", w.steps)


def run_machine(sub, tier, seed, shard, nshards, rec, mode, examples, steps):
    """Sub.runner: run the Hypothesis state machine for this shard."""
    import math

    import hypothesis
    from hypothesis import settings
    from hypothesis.stateful import run_state_machine_as_test

    from .core import hyp_settings, shard_seed

    n = int(math.ceil(examples[tier] / float(nshards)))
    base = hyp_settings(n)
    s = settings(base, stateful_step_count=steps[tier])
    from .core import ShrinkGuard

    guard = ShrinkGuard(rec, tier)
    M = make_machine(mode, rec, tier, guard)
    guard.run(lambda: run_state_machine_as_test(hypothesis.seed(shard_seed(seed, shard))(M), settings=s))
