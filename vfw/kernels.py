"""Shared generators and oracle for the sorted-set kernels (C08, C09)."""
import itertools

from hypothesis import strategies as st

from .core import Violation, libcall

TOP = 2 ** 32 - 1
LAYOUT_CYCLE = ["plain", "strided", "reversed", "plain", "offset", "readonly", "plain"]


def universes(m):
    lo = m - m // 2
    return {
        "low": list(range(m)),
        "high": list(range(TOP - m + 1, TOP + 1)),
        "split": list(range(lo)) + list(range(TOP - (m - lo) + 1, TOP + 1)),
    }


def subset(universe, mask):
    return [v for i, v in enumerate(universe) if mask >> i & 1]


def enum_pairs(m, shard, nshards):
    """All ordered pairs of subsets of three universes of m values, by increasing size."""
    by_pc = [[] for _ in range(m + 1)]
    for x in range(1 << m):
        by_pc[bin(x).count("1")].append(x)
    i = 0
    for uname, u in universes(m).items():
        subs = [subset(u, x) for x in range(1 << m)]
        for total in range(2 * m + 1):
            for ca in range(0, min(m, total) + 1):
                cb = total - ca
                if cb > m:
                    continue
                for ma in by_pc[ca]:
                    for mb in by_pc[cb]:
                        if i % nshards == shard:
                            yield {"op": "pair", "a": subs[ma], "b": subs[mb], "u": uname,
                                   "layout": LAYOUT_CYCLE[(i // nshards) % len(LAYOUT_CYCLE)]}
                        i += 1


def enum_many(m, k, shard, nshards):
    """All k-tuples of subsets of {0..m-1} u {TOP} style universes for the multi-way union."""
    i = 0
    for uname, u in universes(m).items():
        if uname == "high":
            continue
        for masks in itertools.product(range(1 << m), repeat=k):
            if i % nshards == shard:
                yield {"op": "many", "arrays": [subset(u, x) for x in masks], "u": uname}
            i += 1


def enum_skewed(tier, shard, nshards):
    """Skewed operand sizes: a long array against every small subset of values near its ends and middle.

    Size-dependent strategies (galloping / binary search for lopsided operands) are a classic
    optimisation of sorted-set kernels; their defects live at the ends of the long operand."""
    i = 0
    lengths = [16, 17, 24, 33] if tier == "quick" else [16, 17, 23, 24, 25, 32, 33, 64, 65, 129]
    for n in lengths:
        for base in (0, TOP - 2 * n - 3):
            long_ = [base + 1 + 2 * j for j in range(n)]            # odd offsets: members
            lo, hi = long_[0], long_[-1]
            window = sorted(set(
                [v for v in range(lo - 1, lo + 5)] + [v for v in range(hi - 5, hi + 2)]
                + [long_[n // 2] - 1, long_[n // 2], long_[n // 2] + 1]))
            window = [v for v in window if 0 <= v <= TOP]
            for k in (1, 2, 3):
                for small in itertools.combinations(window, k):
                    for a, b in ((long_, list(small)), (list(small), long_)):
                        if i % nshards == shard:
                            yield {"op": "pair", "a": a, "b": b, "u": "skew%d" % n}
                        i += 1


def enum_blocks(tier, shard, nshards):
    """Regular operands at block-size lengths: runs of consecutive (or evenly spaced) row ids whose length is a
    power of two or one off (16..1025), against themselves, shifted copies, halves, every other element, single
    elements at block boundaries, and three-way lists of them. Real row-id arrays look like this (contiguous
    ranges after a filter, whole blocks of a sorted file); uniform random generation never produces them, and
    block-wise / unrolled / vectorised loops have their slips exactly there."""
    i = 0
    lengths = [15, 16, 17, 31, 32, 33, 63, 64, 65, 127, 128, 129, 255, 256, 257] + (
        [1023, 1024, 1025, 8192, 8193] if tier == "quick" else [511, 512, 513, 1023, 1024, 1025, 4095, 4096, 4097, 8191,
                                                              8192, 8193, 16384, 65536])
    for n in lengths:
        for step in (1, 2):
            for base in (0, TOP - step * (n + 2)):
                a = [base + step * j for j in range(n)]
                half = n // 2
                variants = [a, a[1:], a[:-1], a[:half], a[half:], a[::2], a[1::2], [v + 1 for v in a if v + 1 <= TOP],
                            [a[0]], [a[-1]], [a[half]], [a[half - 1], a[half]], a + [a[-1] + step],
                            [v for k, v in enumerate(a) if k % 64 in (0, 63)], []]
                if step == 2 and n >= 8:
                    # near-copies: same length, same first and last id, one interior id moved by one (a variable crossed
                    # with a slightly edited copy of itself) - at the quarter points and next to the ends
                    for k in sorted({1, n // 4, n // 2, (3 * n) // 4, n - 2}):
                        variants.append(a[:k] + [a[k] + 1] + a[k + 1:])
                for b in variants:
                    for x, y in ((a, b), (b, a)):
                        if i % nshards == shard:
                            yield {"op": "pair", "a": x, "b": y, "u": "block%d" % n,
                                   "layout": LAYOUT_CYCLE[i % len(LAYOUT_CYCLE)]}
                        i += 1
                if n in (65, 129, 257) or (tier != "quick" and n in (513, 1025)):
                    # every alignment: one member of the run plus a value beyond its end (a sparse array that goes on
                    # after the dense one stops) - block-skipping searches must stop exactly at the end of the run
                    for k in range(n):
                        for b in ([a[k], a[-1] + step], [a[k]]):
                            for x, y in ((a, b), (b, a)):
                                if i % nshards == shard:
                                    yield {"op": "pair", "a": x, "b": y, "u": "align%d" % n,
                                           "layout": LAYOUT_CYCLE[i % len(LAYOUT_CYCLE)]}
                                i += 1
                for lst in ([a, a[::2], a[half:]], [a[:half], a[half:], a], [a[1::2], a[::2], []]):
                    if i % nshards == shard:
                        yield {"op": "many", "arrays": lst, "u": "block%d" % n}
                    i += 1


PATTERNS = [
    "skewed", "skewed",
    "codes", "disjoint_left", "disjoint_right", "touching", "nested", "interleaved",
    "identical", "a_empty", "b_empty", "both_empty",
]


def _pool(gaps, anchor):
    vals = []
    if anchor == "high":
        v = TOP
        for g in gaps:
            vals.append(v)
            v -= g
            if v < 0:
                break
        vals.reverse()
    else:
        v = {"low": 0, "one": 1, "mid": 2 ** 31 - 3, "w16": 65533}[anchor]
        for g in gaps:
            if v > TOP:
                break
            vals.append(v)
            v += g
    return vals


def _split(pool, pattern, codes, k1, k2):
    n = len(pool)
    if pattern == "both_empty" or n == 0:
        return [], []
    i = k1 % (n + 1)
    j = k2 % (n + 1)
    i, j = min(i, j), max(i, j)
    if pattern == "skewed":
        # a long operand against a few values taken at / next to its ends (and a few anywhere)
        long_ = pool
        picks = []
        spots = [0, 1, 2, n - 3, n - 2, n - 1]
        for t, c in enumerate(codes[:8]):
            if t == 0 or (k1 >> t) & 1:
                idx = spots[(k2 + t) % 6] if (k2 >> t) & 1 else (k1 * (t + 3) + k2) % n
                idx = max(0, min(n - 1, idx))
                v = long_[idx] + (c - 1 if (k1 + t) % 3 == 0 else 0)
                if 0 <= v <= TOP:
                    picks.append(v)
        return long_, sorted(set(picks))
    if pattern == "codes":
        a = [v for v, c in zip(pool, codes) if c in (0, 2)]
        b = [v for v, c in zip(pool, codes) if c in (1, 2)]
        return a, b
    if pattern == "disjoint_left":
        return pool[:i], pool[i:]
    if pattern == "disjoint_right":
        return pool[i:], pool[:i]
    if pattern == "touching":
        return pool[: i + 1], pool[i:]
    if pattern == "nested":
        return pool, pool[i:j]
    if pattern == "interleaved":
        return pool[0::2], pool[1::2]
    if pattern == "identical":
        return pool, list(pool)
    if pattern == "a_empty":
        return [], pool
    if pattern == "b_empty":
        return pool, []
    raise AssertionError(pattern)


def pair_cases(max_len):
    gap = st.one_of(st.integers(1, 3), st.integers(1, 3), st.integers(1, 70000),
                    st.sampled_from([2 ** 16, 2 ** 24, 2 ** 31, 2 ** 32 - 2]))

    def build(gaps, codes, pattern, anchor, k1, k2, layout, swap):
        pool = _pool(gaps, anchor)
        codes = (codes * (len(pool) // max(1, len(codes)) + 1))[: len(pool)] if codes else [2] * len(pool)
        a, b = _split(pool, pattern, codes, k1, k2)
        if swap:
            a, b = b, a
        return {"op": "pair", "a": a, "b": b, "layout": layout, "pattern": pattern}

    return st.builds(
        build,
        st.lists(gap, min_size=0, max_size=max_len),
        st.lists(st.integers(0, 2), min_size=1, max_size=max_len),
        st.sampled_from(PATTERNS),
        st.sampled_from(["low", "one", "mid", "w16", "high"]),
        st.integers(0, 1000), st.integers(0, 1000),
        st.sampled_from(["plain", "plain", "strided", "readonly", "offset", "reversed"]),
        st.booleans(),
    )


def wrapper_cases(max_len):
    def build(case, none_a, none_b, cl, cr):
        case = dict(case)
        case["op"] = "wrap"
        if none_a:
            case["a"] = None
        if none_b:
            case["b"] = None
        case["cl"], case["cr"] = cl, cr
        return case

    return st.builds(build, pair_cases(max_len), st.integers(0, 3).map(lambda x: x == 0),
                     st.integers(0, 3).map(lambda x: x == 0), st.booleans(), st.booleans())


def many_cases(max_len, max_k=6):
    def build(gaps, anchor, memberships, k):
        pool = _pool(gaps, anchor)
        arrays = [[] for _ in range(k)]
        for idx, v in enumerate(pool):
            m = memberships[idx % len(memberships)]
            for j in range(k):
                if m >> j & 1:
                    arrays[j].append(v)
        return {"op": "many", "arrays": arrays}

    gap = st.one_of(st.integers(1, 3), st.integers(1, 70000), st.sampled_from([2 ** 31]))
    return st.builds(
        build,
        st.lists(gap, min_size=0, max_size=max_len),
        st.sampled_from(["low", "one", "mid", "high"]),
        st.lists(st.integers(0, 63), min_size=1, max_size=max_len),
        st.integers(0, max_k),
    )


# --------------------------------------------------------------------------- #
# oracle


def _arr(values, layout="plain"):
    import numpy

    a = numpy.array(values, dtype=numpy.uint32)
    if layout == "strided":
        big = numpy.zeros(2 * len(a) + 1, dtype=numpy.uint32)
        big[1::2][: len(a)] = a
        big[0::2] = 0xDEADBEEF
        a = big[1::2][: len(a)]
    elif layout == "offset":
        big = numpy.full(len(a) + 2, 0xDEADBEEF, dtype=numpy.uint32)
        big[1:-1] = a
        a = big[1:-1]
    elif layout == "reversed":
        # a descending buffer viewed backwards: strictly increasing, negative stride, and anything that walks the
        # base buffer forwards from element 0 of the view runs off its end
        base = numpy.ascontiguousarray(a[::-1])
        a = base[::-1]
    elif layout == "readonly":
        a.setflags(write=False)
    return a


class observe:
    """C09 mode: only an IndexError of the bounds-checked build is a violation.

    (An ASan report aborts the process and is attributed by the runner.)  Any
    other exception, and any wrong value, is C08's business, not C09's.
    """

    def __init__(self, name, rec):
        self.name = name
        self.rec = rec

    def __enter__(self):
        return self

    def __exit__(self, et, ev, tb):
        if et is None:
            return False
        if issubclass(et, IndexError):
            raise Violation("%s raised IndexError in the bounds-checked build: %s" % (self.name, ev),
                            sig=self.name + " out-of-bounds access") from ev
        if issubclass(et, Exception) and not issubclass(et, Violation):
            self.rec.note("other exception (not a memory access): " + et.__name__)
            return True
        return False


def _verify(name, got, want, inputs, snapshots):
    import numpy

    if not isinstance(got, numpy.ndarray):
        raise Violation("%s returned %r, not an ndarray" % (name, type(got)),
                        sig=name + " result type")
    if got.dtype != numpy.uint32 or got.ndim != 1:
        raise Violation("%s returned dtype %s ndim %d, expected 1-D uint32"
                        % (name, got.dtype, got.ndim), sig=name + " result dtype")
    if got.tolist() != want:
        raise Violation("%s(%s) = %s, expected %s" % (
            name, ", ".join(str(x.tolist()) for x in inputs), got.tolist(), want),
            sig=name + " wrong result")
    for x, snap in zip(inputs, snapshots):
        if x.tolist() != snap:
            raise Violation("%s modified its input: %s -> %s" % (name, snap, x.tolist()),
                            sig=name + " modified input")


def check_pair(case, rec, nontrivial="c08", enum=False):
    from catii import set_operations as so

    layout = case.get("layout", "plain")
    la, lb = case["a"], case["b"]
    sa, sb = set(la), set(lb)
    for name, fn, want in (
        ("set_intersect_merge_np", so.set_intersect_merge_np, sorted(sa & sb)),
        ("set_union_merge_np", so.set_union_merge_np, sorted(sa | sb)),
        ("set_difference_merge_np", so.set_difference_merge_np, sorted(sa - sb)),
    ):
        a, b = _arr(la, layout), _arr(lb, layout)
        if nontrivial == "c09":
            with observe(name, rec):
                fn(a, b)
            continue
        with libcall(name):
            got = fn(a, b)
        _verify(name, got, want, (a, b), (la, lb))
        if la == lb:
            # identical operands are also passed as one and the same array object
            with libcall(name + " (one object as both operands)"):
                got = fn(a, a)
            _verify(name + " (one object as both operands)", got, want, (a,), (la,))
    overlap = bool(la) and bool(lb) and la[0] <= lb[-1] and lb[0] <= la[-1]
    if nontrivial == "c08":
        nt = overlap
    else:
        nt = (bool(la) != bool(lb)) or (overlap and la[-1] != lb[-1])
    if la and lb:
        rec.note("overlap" if overlap else "disjoint")
        if TOP in sa or TOP in sb:
            rec.note("has_2^32-1")
    else:
        rec.note("both_empty" if not la and not lb else "one_empty")
    if nt:
        if enum:
            rec.nontrivial_enum()
        else:
            rec.nontrivial({"a": la, "b": lb})


def check_wrap(case, rec):
    import numpy

    from catii import set_operations as so

    layout = case.get("layout", "plain")
    la, lb = case["a"], case["b"]
    sa = set(la or [])
    sb = set(lb or [])

    def mk():
        return (None if la is None else _arr(la, layout), None if lb is None else _arr(lb, layout))

    def verify_opt(name, got, want, none_expected, inputs):
        if none_expected:
            if got is not None:
                raise Violation("%s(%r, %r) returned %r, documented result is None"
                                % (name, la, lb, got), sig=name + " should return None")
            return
        if got is None:
            raise Violation("%s(%r, %r) returned None, expected %s" % (name, la, lb, want),
                            sig=name + " returned None")
        ins = [x for x in inputs if x is not None]
        _verify(name, numpy.asarray(got), want, ins,
                [l for l in (la, lb) if l is not None])

    a, b = mk()
    with libcall("union"):
        got = so.union(a, b, copy_left=case["cl"], copy_right=case["cr"])
    want = sorted(sa | sb)
    verify_opt("union", got, want, (la is None and lb is None) or not want, (a, b))
    if got is not None:
        if la is None and case["cr"] and numpy.shares_memory(got, b):
            raise Violation("union(None, b, copy_right=True) shares memory with b",
                            sig="union copy_right not a copy")
        if lb is None and case["cl"] and numpy.shares_memory(got, a):
            raise Violation("union(a, None, copy_left=True) shares memory with a",
                            sig="union copy_left not a copy")

    a, b = mk()
    with libcall("intersection"):
        got = so.intersection(a, b)
    want = sorted(sa & sb)
    verify_opt("intersection", got, want, la is None or lb is None or not want, (a, b))

    a, b = mk()
    with libcall("difference"):
        got = so.difference(a, b, copy=case["cl"])
    want = sorted(sa - sb) if la is not None else []
    verify_opt("difference", got, want, la is None or not want, (a, b))
    if got is not None and lb is None and case["cl"] and numpy.shares_memory(got, a):
        raise Violation("difference(a, None, copy=True) shares memory with a",
                        sig="difference copy not a copy")
    if la is not None and la == lb:
        # identical operands are also passed as one and the same array object
        a, _ = mk()
        with libcall("union (one object as both operands)"):
            got = so.union(a, a, copy_left=case["cl"], copy_right=case["cr"])
        verify_opt("union (one object as both operands)", got, sorted(sa), not sa, (a,))
        a, _ = mk()
        with libcall("intersection (one object as both operands)"):
            got = so.intersection(a, a)
        verify_opt("intersection (one object as both operands)", got, sorted(sa), not sa, (a,))
        a, _ = mk()
        with libcall("difference (one object as both operands)"):
            got = so.difference(a, a, copy=case["cl"])
        verify_opt("difference (one object as both operands)", got, [], True, (a,))
        rec.note("one object as both operands")
    rec.note("a_none" if la is None else "a_arr", "b_none" if lb is None else "b_arr")
    if la is None or lb is None or not (sa & sb) or not (sa - sb):
        rec.nontrivial({"a": la, "b": lb, "cl": case["cl"], "cr": case["cr"]})


def check_many(case, rec, enum=False, mode="c08"):
    from catii import set_operations as so

    lists = case["arrays"]
    arrays = [_arr(l) for l in lists]
    want = sorted(set().union(*[set(l) for l in lists])) if lists else []
    # lists with equal content are ALSO passed as one and the same array object (a shared row-id array
    # appearing several times in the list)
    seen = {}
    shared = [seen.setdefault(tuple(l), a) for a, l in zip(arrays, lists)]
    repeated = len({id(a) for a in shared}) < len(shared)
    if repeated:
        rec.note("same array object repeated in the list")
    if mode == "c09":
        with observe("set_union_merge_many", rec):
            so.set_union_merge_many(list(arrays))
        if repeated:
            with observe("set_union_merge_many (an array object repeated)", rec):
                so.set_union_merge_many(list(shared))
    else:
        if repeated:
            with libcall("set_union_merge_many (an array object repeated)"):
                got = so.set_union_merge_many(list(shared))
            _verify("set_union_merge_many (an array object repeated)", got, want, shared, lists)
        holder = list(arrays)
        with libcall("set_union_merge_many"):
            got = so.set_union_merge_many(holder)
        _verify("set_union_merge_many", got, want, arrays, lists)
        # the SAME list object, changed between two calls (a running union): the result depends on the
        # list's contents now, not on what it held at an earlier call
        if lists:
            extra = sorted({(v * 7 + 3) % (TOP + 1) for v in lists[0][:3]} | {5, TOP - 2})
            holder.append(_arr(extra))
            if len(holder) > 2:
                del holder[0]
                rest = lists[1:] + [extra]
            else:
                rest = lists + [extra]
            want2 = sorted(set().union(*[set(l) for l in rest]))
            with libcall("set_union_merge_many (same list object, modified)"):
                got2 = so.set_union_merge_many(holder)
            _verify("set_union_merge_many (list modified between calls)", got2, want2, [], [])
    nonempty = [l for l in lists if l]
    rec.note("k=%d" % len(lists))
    dup = sum(len(l) for l in lists) != len(want)
    if len(nonempty) >= 3 and len({len(l) for l in nonempty}) > 1:
        rec.note("k>=3 unequal lengths")
    if len(nonempty) >= 2 and dup:
        if enum:
            rec.nontrivial_enum()
        else:
            rec.nontrivial({"arrays": lists})


def check_any(case, rec, nontrivial="c08", enum=False):
    op = case["op"]
    if op == "pair":
        return check_pair(case, rec, nontrivial, enum)
    if op == "wrap":
        return check_wrap(case, rec)
    if op == "many":
        return check_many(case, rec, enum, nontrivial)
    raise AssertionError(op)
