"""./check <ID> [--tier quick|thorough] [--replay FILE] [--only SUB[,SUB]]"""
import argparse
import importlib
import os
import sys
import traceback


def main(argv=None):
    ap = argparse.ArgumentParser()
    ap.add_argument("property")
    ap.add_argument("--tier", default=os.environ.get("VERIF_TIER") or "quick",
                    choices=["quick", "thorough"])
    ap.add_argument("--replay")
    ap.add_argument("--only")
    ap.add_argument("--seed", default=os.environ.get("VERIF_SEED") or "1")
    a = ap.parse_args(argv)
    try:
        seed = int(a.seed)
    except ValueError:
        seed = int.from_bytes(a.seed.encode(), "big") % (2 ** 31)
    from . import build, core

    try:
        pmod = importlib.import_module("vfw.props." + a.property.lower())
        only = set(a.only.split(",")) if a.only else None
        return core.main_property(pmod, a.tier, seed, replay=a.replay, only=only)
    except build.BuildError as e:
        sys.stderr.write("BUILD ERROR (working tree does not compile): %s\n" % e)
        return 2
    except Exception:
        sys.stderr.write("HARNESS ERROR:\n" + traceback.format_exc())
        return 2


if __name__ == "__main__":
    sys.exit(main())
