"""Import the *current working tree* of catii, with a freshly built kernel module.

Three variants of `set_operations.pyx` are built into a content-addressed cache
under /verif/.cache/build (git-ignored, re-created on demand):

  plain   the .pyx as it is                       (gcc -O1)
  bounds  every boundscheck(False) flipped on     (gcc -O1)  -> IndexError in-process
  asan    the unmodified .pyx                     (clang -O1 -g -fsanitize=address)

A compile failure raises BuildError (the runner turns it into exit code 2).
"""
import fcntl
import hashlib
import importlib.util
import os
import re
import shutil
import subprocess
import sys
import sysconfig

VERIF = os.path.dirname(os.path.dirname(os.path.abspath(__file__)))
CACHE = os.path.join(VERIF, ".cache", "build")
ASAN_RT = "/usr/lib/llvm-14/lib/clang/14.0.6/lib/linux/libclang_rt.asan-x86_64.so"


class BuildError(Exception):
    pass


def repo():
    return os.environ.get("CATII_REPO", "/repo")


def src_dir():
    return os.path.join(repo(), "src")


def pyx_path():
    return os.path.join(src_dir(), "catii", "set_operations.pyx")


def _pyx_text(variant):
    with open(pyx_path()) as f:
        text = f.read()
    if variant == "bounds":
        text2 = re.sub(r"boundscheck\(\s*False\s*\)", "boundscheck(True)", text)
        text2 = re.sub(r"boundscheck\s*=\s*False", "boundscheck=True", text2)
        text = "# cython: boundscheck=True\n" + text2
    return text


def _flags(variant):
    if variant == "asan":
        return ["clang", "-O1", "-g", "-fno-omit-frame-pointer", "-fsanitize=address"]
    if variant == "asanfuzz":
        return [
            "clang", "-O1", "-g", "-fno-omit-frame-pointer",
            "-fsanitize=address,fuzzer-no-link",
        ]
    return ["gcc", "-O1"]


def ext_suffix():
    return sysconfig.get_config_var("EXT_SUFFIX")


def build_variant(variant="plain"):
    """Return the path of the built extension module for `variant` (cached)."""
    import Cython
    import numpy

    text = _pyx_text(variant)
    flags = _flags(variant)
    key = hashlib.sha256(
        "\0".join(
            [text, variant, " ".join(flags), Cython.__version__, numpy.__version__,
             sys.version]
        ).encode()
    ).hexdigest()[:24]
    outdir = os.path.join(CACHE, key)
    so = os.path.join(outdir, "set_operations" + ext_suffix())
    if os.path.exists(so):
        return so
    os.makedirs(CACHE, exist_ok=True)
    with open(os.path.join(CACHE, ".lock"), "w") as lock:
        fcntl.flock(lock, fcntl.LOCK_EX)
        if os.path.exists(so):
            return so
        tmp = outdir + ".tmp%d" % os.getpid()
        shutil.rmtree(tmp, ignore_errors=True)
        os.makedirs(tmp)
        try:
            pyx = os.path.join(tmp, "set_operations.pyx")
            with open(pyx, "w") as f:
                f.write(text)
            c = os.path.join(tmp, "set_operations.c")
            r = subprocess.run(
                [sys.executable, "-m", "cython", "-3", "--module-name",
                 "catii.set_operations", pyx, "-o", c],
                capture_output=True, text=True,
            )
            if r.returncode != 0:
                raise BuildError("cython failed:\n" + r.stdout + r.stderr)
            cmd = flags + [
                "-shared", "-fPIC", "-w",
                "-DNPY_NO_DEPRECATED_API=NPY_1_7_API_VERSION",
                "-I", numpy.get_include(),
                "-I", sysconfig.get_paths()["include"],
                c, "-o", os.path.join(tmp, "set_operations" + ext_suffix()),
            ]
            r = subprocess.run(cmd, capture_output=True, text=True)
            if r.returncode != 0:
                raise BuildError("compile failed:\n" + r.stdout + r.stderr)
            os.remove(c)
            os.rename(tmp, outdir)
        finally:
            shutil.rmtree(tmp, ignore_errors=True)
    return so


_loaded = {}


def install_dispatch_pool():
    """Replace multiprocessing.pool.ThreadPool by a dispatching subclass.

    Must run before catii is imported so that import-time bindings
    (xcube.pool_class) and call-time lookups (ccube) both resolve to it.
    `vfw.build.POOL_FACTORY[0]` (callable taking the pool size) selects the
    pool actually constructed; None means the real ThreadPool.
    """
    import multiprocessing.pool as mpp

    if getattr(mpp.ThreadPool, "_vfw_dispatch", False):
        return
    real = mpp.ThreadPool

    class DispatchThreadPool(real):
        _vfw_dispatch = True
        _vfw_real = real

        def __new__(cls, *args, **kwargs):
            CONSTRUCTED[0] += 1
            reap_real_pools()
            factory = POOL_FACTORY[0]
            if factory is not None:
                return factory(*args, **kwargs)
            # An instance of `real` is not an instance of this subclass, so
            # Python will not run __init__ for us: do it here.
            obj = real.__new__(real)
            real.__init__(obj, *args, **kwargs)
            REAL_POOLS.append(obj)
            return obj

    mpp.ThreadPool = DispatchThreadPool
    import multiprocessing.dummy  # noqa: F401  (binds its own reference)


POOL_FACTORY = [None]
CONSTRUCTED = [0]
REAL_POOLS = []


def reap_real_pools():
    """Terminate and join, IN THE CALLING (main) THREAD, every real ThreadPool the library created earlier.

    The library only close()s its pool. When an evaluation was aborted by an exception the pool object can end up
    being garbage-collected inside one of its own dying worker threads; its finalizer then joins the other workers
    while holding threading's _active_limbo_lock - a CPython-level deadlock (seen as a hanging DetPool.map whose
    Thread.start() never returned). Keeping a reference here and reaping before the next pool is created, and after
    every aborted evaluation, takes that out of the harness's way."""
    while REAL_POOLS:
        p = REAL_POOLS.pop()
        try:
            p.terminate()
            p.join()
        except Exception:
            pass


def real_threadpool():
    import multiprocessing.pool as mpp

    return getattr(mpp.ThreadPool, "_vfw_real", mpp.ThreadPool)


def load_catii(variant="plain"):
    """Import catii from the working tree with the given kernel build.

    One variant per process (a second, different, request raises).
    """
    if _loaded:
        if variant not in _loaded:
            raise RuntimeError("catii already loaded as %r" % list(_loaded))
        return _loaded[variant]
    sys.dont_write_bytecode = True
    so = build_variant(variant)
    for name in [m for m in sys.modules if m == "catii" or m.startswith("catii.")]:
        del sys.modules[name]
    install_dispatch_pool()
    pkgdir = os.path.join(src_dir(), "catii")
    pkg_spec = importlib.util.spec_from_file_location(
        "catii", os.path.join(pkgdir, "__init__.py"),
        submodule_search_locations=[pkgdir],
    )
    pkg = importlib.util.module_from_spec(pkg_spec)
    sys.modules["catii"] = pkg
    spec = importlib.util.spec_from_file_location("catii.set_operations", so)
    mod = importlib.util.module_from_spec(spec)
    sys.modules["catii.set_operations"] = mod
    spec.loader.exec_module(mod)
    pkg.set_operations = mod
    pkg_spec.loader.exec_module(pkg)
    import catii.ccubes  # noqa: F401
    import catii.ffuncs  # noqa: F401
    import catii.iindexes  # noqa: F401
    import catii.indxio  # noqa: F401
    import catii.xcubes  # noqa: F401
    import catii.xfuncs  # noqa: F401

    for sub in ("iindexes", "ccubes", "ffuncs", "xcubes", "xfuncs", "indxio"):
        f = sys.modules["catii." + sub].__file__
        if not os.path.abspath(f).startswith(os.path.abspath(pkgdir)):
            raise BuildError("catii.%s imported from %s, not the working tree" % (sub, f))
    _loaded[variant] = pkg
    return pkg


def asan_env():
    env = dict(os.environ)
    env["LD_PRELOAD"] = ASAN_RT
    env["ASAN_OPTIONS"] = "detect_leaks=0:abort_on_error=0:exitcode=99:allocator_may_return_null=1"
    return env


if __name__ == "__main__":
    for v in sys.argv[1:] or ["plain", "bounds", "asan"]:
        print(v, build_variant(v))
