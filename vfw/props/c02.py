"""C02 - count cube equals the brute-force contingency table (DESIGN.md section 3, C02)."""
from hypothesis import strategies as st

from .. import cubes as Q
from ..core import Sub, Violation, libcall

PROPERTY = "C02"
LEVEL = "exploration"
RULE = (
    "Hypothesis cubes of 0..4 index dimensions over N in 0..40 rows: per dimension 1, 2 or 3 axes (extra extents "
    "1..3), 1..5 categories with a skew parameter (or one boundary extent 255/256/257/65535/65536/65537), common "
    "value drawn from the categories or one beyond them (so most-frequent, rare and absent all occur), indexes built "
    "by an independent constructor, cube shape inferred / exact / padded by 1..3, each of the three report formats. "
    "Oracle: per-cell row counts by a pure-Python group-by; missing iff zero; every block sums to N. "
    "Non-trivial = at least 2 dimensions and at least one dimension whose common category occurs in the data "
    "(so a cell is reconstructed by differencing); at least a quarter of the cubes have 4 dimensions. "
    "Distinct by the full case content. histories: the C06 state machine in count-cube mode - after every step the count "
    "cube of every live non-negative index (alone and crossed with another live index of the same length) is "
    "compared with the table counted from the dense NumPy model, so indexes REACHED BY A HISTORY (append, update, "
    "filter, set updates, re-indexing ...) and cubes computed repeatedly over the same index object are covered; "
    "non-trivial = a history with a mutation in which a cube was computed over an operation's result. count also "
    "re-evaluates cubes with more than two sub-cubes with the worker pool on (real threads, pool sizes 2..16). "
    "huge_sparse: hand-built indexes over 2^30 / sub-cubes (+-1) rows with at most 6 listed rows per column near both "
    "ends and the middle, so the library switches its pool on BY ITSELF (default or chosen pool size); oracle counted "
    "from the entries, the remaining rows belong to the all-common cell."
)
ASSUMPTIONS = [
    "explicit cube shapes cover the data and the common value of each dimension",
    "indexes are built by vfw.cubes.build_index (sorted unique uint32 row ids), not by from_array",
]


@st.composite
def cases(draw, tier):
    if draw(st.integers(0, 7)) == 0:
        # hundreds / thousands of rows, random / sorted / in blocks of 64 or 1024 identical rows (a recipe)
        spec = draw(Q.large_specs(["count"]))
        spec["rma"] = draw(st.sampled_from(["nan", ["tuple", 0], "plain"]))
        spec["poolsize"] = draw(st.sampled_from([None, None, 4]))
        return spec
    nd_kind = draw(st.integers(0, 3))
    if nd_kind == 0:
        spec = draw(Q.cube_specs(max_nd=4, min_nd=4, max_n=30,
                                 tails=((), (), (), (2,), (1,), (2, 2))))
    else:
        spec = draw(Q.cube_specs(max_nd=3, min_nd=0, max_n=40, big_ok=True,
                                 tails=((), (), (2,), (3,), (1,), (2, 2), (3, 2), (2, 1))))
    spec["rma"] = draw(st.sampled_from(["nan", "nan", ["tuple", 0], "plain"]))
    # cubes with more than two sub-cubes are also evaluated with the worker pool switched on (real threads)
    spec["poolsize"] = draw(st.sampled_from([None, None, 2, 3, 4, 6, 16]))
    return spec


def check(case, rec):
    import numpy

    if case.get("recipe"):
        rec.note("large recipe case (rows %s)" % case.get("rows"))
    case = Q.expand(case)
    dense = Q.dense_dims(case)
    N = case["N"]
    nd = len(dense)
    _, full = Q.cube_shape(case, dense)
    with libcall("ccube(...)"):
        cube, idxs = Q.make_ccube(case, dense)
    with libcall("ccube.count"):
        res = Q.call_agg(cube, "count", None, None, False, case["rma"], N=N if nd == 0 else None)
    exp_v, exp_m, _ = Q.oracle(dense, full, "count", N, w=numpy.ones(N), wvalid=numpy.ones(N, dtype=bool))
    gv, gm = Q.normalise(res, case["rma"], "ccube.count")
    if nd == 0 and gv.size == 1:
        gv = gv.reshape(exp_v.shape)
        gm = None if gm is None else gm.reshape(exp_m.shape)
    Q.compare("ccube.count[%s]" % case["shape_mode"], gv, gm, exp_v, exp_m)
    if nd and N >= 2 and not case.get("recipe"):
        # one count-function object serves the cube and then a cube over the first half of the rows (a filtered subset)
        from catii import ffuncs

        half = [a[: N // 2] for a in dense]
        hv, hm, _ = Q.oracle(half, full, "count", N // 2, w=numpy.ones(N // 2), wvalid=numpy.ones(N // 2, dtype=bool))
        with libcall("one ffunc_count object on a cube and on a cube over the first half of its rows"):
            fobj = ffuncs.ffunc_count(None, None, False, Q.rma_arg(["tuple", 0]))
            cube.calculate([fobj])
            commons = [d["common"] for d in case["dims"]]
            small = type(cube)([Q.build_index(a, c) for a, c in zip(half, commons)], tuple(full))
            res_h = small.calculate([fobj])[0]
        gv2, gm2 = Q.normalise(res_h, ["tuple", 0], "ccube.count (re-used function object)")
        Q.compare("ccube.count[function object re-used on %d of %d rows]" % (N // 2, N), gv2, gm2, hv, hm)
    if case.get("poolsize") and getattr(cube, "scaffold_size", 0) > 2:
        with libcall("ccube.count with the worker pool on (poolsize %d)" % case["poolsize"]):
            pooled, _ = Q.make_ccube(case, dense)
            pooled.parallel = True
            pooled.poolsize = case["poolsize"]
            res2 = Q.call_agg(pooled, "count", None, None, False, case["rma"], N=None)
        pv, pm = Q.normalise(res2, case["rma"], "ccube.count (pooled)")
        Q.compare("ccube.count[%s, pool of %d]" % (case["shape_mode"], case["poolsize"]), pv, pm, exp_v, exp_m)
        rec.note("also evaluated with the pool on")
    if nd:
        ns = len(Q.scaffold_shape(case))
        sums = gv.sum(axis=tuple(range(ns, gv.ndim)))
        if not numpy.all(sums == N):
            raise Violation("count cube block sums %s differ from N=%d" % (sums.tolist(), N),
                            sig="ccube.count block sum != N")
    rec.note("nd=%d" % nd, "shape=" + case["shape_mode"], "rma=" + str(case["rma"]))
    recon = False
    for d, a in zip(case["dims"], dense):
        naxes = 1 + len(d["tail"])
        if naxes == 3:
            rec.note("3-axis dim")
        if d.get("big"):
            rec.note("boundary extent")
        present = bool((a == d["common"]).any())
        recon = recon or present
        if not present:
            rec.note("common absent from data")
    if N == 0:
        rec.note("N=0")
    if nd >= 2 and recon:
        rec.nontrivial()


BIG_REGIONS = 2 ** 30  # rows x sub-cubes from which the index cube switches its worker pool on by itself


@st.composite
def huge_cases(draw, tier):
    """Hundreds of millions of rows, a handful of entries: cheap for an inverted index, and the only way to reach
    the configuration the library chooses BY ITSELF for big inputs (worker pool on, default or chosen pool size)."""
    C = draw(st.sampled_from([3, 3, 4, 5, 8]))
    D = draw(st.sampled_from([None, None, 2]))
    scaffold = C * (D or 1)
    N = -(-BIG_REGIONS // scaffold) + draw(st.sampled_from([-1, 0, 0, 1, 1000]))
    near = st.one_of(st.integers(0, 40), st.integers(N - 40, N - 1), st.integers(N // 2 - 20, N // 2 + 20))

    def draw_dim(tail):
        common = draw(st.integers(0, 3))
        values = [v for v in range(4) if v != common]
        entries = []
        import itertools

        for pos in itertools.product(*[range(e) for e in tail]):
            rows = sorted(set(draw(st.lists(near, max_size=6))))
            groups = {}
            for r in rows:
                groups.setdefault(draw(st.sampled_from(values)), []).append(r)
            for v, rs in sorted(groups.items()):
                entries.append([[v] + list(pos), rs])
        return {"tail": list(tail), "common": common, "entries": entries}

    dims = [draw_dim([C] if D is None else [C, D])]
    if draw(st.booleans()):
        dims.append(draw_dim([]))
    if draw(st.booleans()):
        dims.reverse()
    return {"N": N, "dims": dims, "poolsize": draw(st.sampled_from([None, None, 2, 6, 16]))}


def check_huge(case, rec):
    import itertools

    import numpy

    from catii import ccube, iindex

    N = case["N"]
    idxs = []
    for d in case["dims"]:
        ents = {tuple(k): numpy.array(r, dtype=numpy.uint32) for k, r in d["entries"]}
        idxs.append(iindex(ents, d["common"], (N,) + tuple(d["tail"])))
    with libcall("ccube(huge sparse indexes).count"):
        cube = ccube(idxs, (4,) * len(idxs))
        auto = bool(cube.parallel)
        if case["poolsize"] is not None:
            cube.poolsize = case["poolsize"]
        vals, valid = cube.count(return_missing_as=(0, False))
        asnan = numpy.asarray(cube.count())  # the default report format: NaN in place (a float region)
    vals, valid = numpy.asarray(vals), numpy.asarray(valid)
    if asnan.shape != vals.shape or not numpy.array_equal(numpy.isnan(asnan), ~valid) or not numpy.array_equal(
            asnan[valid], vals[valid].astype(float)):
        bad = numpy.argwhere(~(numpy.isnan(asnan) == ~valid) | (valid & (numpy.nan_to_num(asnan) != vals)))
        bad = tuple(int(x) for x in bad[0]) if len(bad) and asnan.shape == vals.shape else None
        raise Violation("count cube over %d rows: the NaN-format result differs from the (values, validity) format%s" % (
            N, "" if bad is None else " at %s: %r versus %r" % (bad, float(asnan[bad]), int(vals[bad]))),
            sig="ccube.count (huge sparse): report formats disagree")
    tails = [tuple(d["tail"]) for d in case["dims"]]
    scaffold = tuple(e for t in tails for e in t)
    if vals.shape != scaffold + (4,) * len(idxs):
        raise Violation("count cube of huge sparse indexes has shape %s, expected %s" % (
            vals.shape, scaffold + (4,) * len(idxs)), sig="ccube.count (huge sparse) shape")
    for pos in itertools.product(*[itertools.product(*[range(e) for e in t]) for t in tails]):
        # rows that are uncommon on some dimension at this position; all other rows sit in the all-common cell
        per_dim = []
        for d, pp in zip(case["dims"], pos):
            m = {}
            for k, rs in d["entries"]:
                if tuple(k[1:]) == tuple(pp):
                    for r in rs:
                        m[r] = k[0]
            per_dim.append(m)
        rows = set().union(*[set(m) for m in per_dim])
        want = numpy.zeros((4,) * len(idxs), dtype=numpy.int64)
        for r in rows:
            want[tuple(m.get(r, d["common"]) for m, d in zip(per_dim, case["dims"]))] += 1
        want[tuple(d["common"] for d in case["dims"])] += N - len(rows)
        flat = tuple(x for pp in pos for x in pp)
        got, gvalid = vals[flat], valid[flat]
        if not numpy.array_equal(gvalid, want != 0) or not numpy.array_equal(got[want != 0], want[want != 0]):
            bad = tuple(int(x) for x in numpy.argwhere((gvalid != (want != 0)) | ((want != 0) & (got != want)))[0])
            raise Violation("count cube over %d rows (pool %s, size %s): block %s cell %s holds %s (valid=%s), %d rows "
                            "have those categories" % (N, "engaged by the library" if auto else "off",
                                                       case["poolsize"] or "default", flat, bad, got[bad],
                                                       bool(gvalid[bad]), int(want[bad])),
                            sig="ccube.count wrong for huge sparse indexes (pool %s)" % ("on" if auto else "off"))
    rec.note("pool engaged by the library" if auto else "below the pooling threshold",
             "poolsize=%s" % (case["poolsize"] or "default"), "subcubes=%d" % int(numpy.prod(scaffold or (1,))))
    if auto and len(idxs) >= 2:
        rec.nontrivial()


MEX = {"quick": 1600, "thorough": 60000}
MSTEPS = {"quick": 20, "thorough": 30}


def machine_runner(sub, tier, seed, shard, nshards, rec):
    from .. import machine as M

    M.run_machine(sub, tier, seed, shard, nshards, rec, "C02", MEX, MSTEPS)


def machine_replay(case, rec):
    from .. import machine as M

    M.replay(case, rec)


SUBS = [
    Sub("histories", machine_replay, runner=machine_runner, examples=MEX, weight=4),
    Sub("count", check, strategy=cases, examples={"quick": 4000, "thorough": 200000}),
    Sub("huge_sparse", check_huge, strategy=huge_cases, examples={"quick": 400, "thorough": 20000}),
]
