"""C02 - count cube equals the brute-force contingency table (DESIGN.md section 3, C02)."""
from hypothesis import strategies as st

from .. import cubes as Q
from ..core import Sub, Violation, libcall

PROPERTY = "C02"
LEVEL = "exploration"
RULE = (
    "Hypothesis cubes of 0..4 index dimensions over N in 0..40 rows: per dimension 1, 2 or 3 axes (extra extents "
    "1..3), 1..5 categories with a skew parameter (or one boundary extent 255/256/257/65535/65536/65537), common "
    "value drawn from the categories or one beyond them (so most-frequent, rare and absent all occur), indexes built "
    "by an independent constructor, cube shape inferred / exact / padded by 1..3, each of the three report formats. "
    "Oracle: per-cell row counts by a pure-Python group-by; missing iff zero; every block sums to N. "
    "Non-trivial = at least 2 dimensions and at least one dimension whose common category occurs in the data "
    "(so a cell is reconstructed by differencing); at least a quarter of the cubes have 4 dimensions. "
    "Distinct by the full case content. histories: the C06 state machine in count-cube mode - after every step the count "
    "cube of every live non-negative index (alone and crossed with another live index of the same length) is "
    "compared with the table counted from the dense NumPy model, so indexes REACHED BY A HISTORY (append, update, "
    "filter, set updates, re-indexing ...) and cubes computed repeatedly over the same index object are covered; "
    "non-trivial = a history with a mutation in which a cube was computed over an operation's result."
)
ASSUMPTIONS = [
    "explicit cube shapes cover the data and the common value of each dimension",
    "indexes are built by vfw.cubes.build_index (sorted unique uint32 row ids), not by from_array",
]


@st.composite
def cases(draw, tier):
    nd_kind = draw(st.integers(0, 3))
    if nd_kind == 0:
        spec = draw(Q.cube_specs(max_nd=4, min_nd=4, max_n=30,
                                 tails=((), (), (), (2,), (1,), (2, 2))))
    else:
        spec = draw(Q.cube_specs(max_nd=3, min_nd=0, max_n=40, big_ok=True,
                                 tails=((), (), (2,), (3,), (1,), (2, 2), (3, 2), (2, 1))))
    spec["rma"] = draw(st.sampled_from(["nan", "nan", ["tuple", 0], "plain"]))
    return spec


def check(case, rec):
    import numpy

    dense = Q.dense_dims(case)
    N = case["N"]
    nd = len(dense)
    _, full = Q.cube_shape(case, dense)
    with libcall("ccube(...)"):
        cube, idxs = Q.make_ccube(case, dense)
    with libcall("ccube.count"):
        res = Q.call_agg(cube, "count", None, None, False, case["rma"], N=N if nd == 0 else None)
    exp_v, exp_m, _ = Q.oracle(dense, full, "count", N, w=numpy.ones(N), wvalid=numpy.ones(N, dtype=bool))
    gv, gm = Q.normalise(res, case["rma"], "ccube.count")
    if nd == 0 and gv.size == 1:
        gv = gv.reshape(exp_v.shape)
        gm = None if gm is None else gm.reshape(exp_m.shape)
    Q.compare("ccube.count[%s]" % case["shape_mode"], gv, gm, exp_v, exp_m)
    if nd:
        ns = len(Q.scaffold_shape(case))
        sums = gv.sum(axis=tuple(range(ns, gv.ndim)))
        if not numpy.all(sums == N):
            raise Violation("count cube block sums %s differ from N=%d" % (sums.tolist(), N),
                            sig="ccube.count block sum != N")
    rec.note("nd=%d" % nd, "shape=" + case["shape_mode"], "rma=" + str(case["rma"]))
    recon = False
    for d, a in zip(case["dims"], dense):
        naxes = 1 + len(d["tail"])
        if naxes == 3:
            rec.note("3-axis dim")
        if d.get("big"):
            rec.note("boundary extent")
        present = bool((a == d["common"]).any())
        recon = recon or present
        if not present:
            rec.note("common absent from data")
    if N == 0:
        rec.note("N=0")
    if nd >= 2 and recon:
        rec.nontrivial()


MEX = {"quick": 1600, "thorough": 60000}
MSTEPS = {"quick": 20, "thorough": 30}


def machine_runner(sub, tier, seed, shard, nshards, rec):
    from .. import machine as M

    M.run_machine(sub, tier, seed, shard, nshards, rec, "C02", MEX, MSTEPS)


def machine_replay(case, rec):
    from .. import machine as M

    M.replay(case, rec)


SUBS = [
    Sub("histories", machine_replay, runner=machine_runner, examples=MEX, weight=4),
    Sub("count", check, strategy=cases, examples={"quick": 4000, "thorough": 200000}),
]
