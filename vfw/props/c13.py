"""C13 - extra axes outermost, in order, independent sub-cubes (DESIGN.md section 3, C13)."""
import itertools

from hypothesis import strategies as st

from .. import cubes as Q
from ..core import Sub, Violation, libcall
from . import c03

PROPERTY = "C13"
LEVEL = "exploration"
RULE = (
    "Hypothesis dimension lists of 1..3 dims with at least one 2- or 3-axis dimension (extra extents 1..4, mostly "
    "pairwise different so that a transposition changes the shape; scaffold <= 24 blocks), both cube types, "
    "aggregates count / valid_count / sum / mean (and stddev, quantile, min, max, covariance on the array cube), "
    "facts with K columns. Oracle (metamorphic, as the property states): result.shape == extra extents in "
    "dimension-then-axis order + category extents (+ fact axes); for EVERY extra-axis position (j1..jm) the block "
    "result[j1..jm] equals the same aggregate on the cube of the one-axis dimensions dense[:, j..] (indexes rebuilt "
    "by the independent constructor, not by sliced()) with the same interacting shape; half of the whole cubes are "
    "evaluated with the worker pool on (real threads, or DetPool with a write-dense schedule), the reference cubes serially. Index cubes are tabulated a second time after one whole entry of a multi-axis "
    "dimension was withdrawn in place (same index objects): the blocks must follow the edited data. Non-trivial = at least two "
    "extra axes with different extents and at least two blocks that differ. Evaluations = cases; blocks compared are "
    "reported separately. Distinct by case content."
)
ASSUMPTIONS = c03.ASSUMPTIONS

TAILS = ((), (), (2,), (3,), (4,), (1,), (2, 3), (3, 2), (4, 2), (2, 1), (1, 3), (2, 4), (2, 2), (3, 3))
XAGGS = ["stddev", "quantile", "min", "max", "covariance"]


@st.composite
def cases(draw, tier):
    kind = draw(st.sampled_from(["ccube", "xcube", "xcube"]))
    spec = draw(Q.cube_specs(max_nd=3, min_nd=1, max_n=25, tails=TAILS, force_multi=True, min_n=1))
    N = spec["N"]
    aggs = list(c03.AGGS)
    if kind == "xcube":
        aggs = aggs + XAGGS
    agg = draw(st.sampled_from(aggs))
    spec["kind"] = kind
    spec["agg"] = agg
    if agg == "count":
        spec["fact"] = None
    elif agg in ("min", "max"):
        f = draw(Q.fact_specs(N, max_k=0))
        spec["fact"] = f
    elif agg == "covariance":
        f = draw(Q.fact_specs(N, dtypes=("float",)))
        if (f["K"] or 0) < 2:
            f = dict(f, K=2, values=(f["values"] * 2)[: 2 * N] + [0] * (2 * N - len(f["values"] * 2)),
                     valid=(f["valid"] * 2)[: 2 * N] + [True] * (2 * N - len(f["valid"] * 2)),
                     junk=(f["junk"] * 2)[: 2 * N] + [0] * (2 * N - len(f["junk"] * 2)))
        spec["fact"] = f
    else:
        spec["fact"] = draw(Q.fact_specs(N))
    if agg in ("min", "max"):
        spec["weights"] = None
    elif agg in ("stddev", "quantile", "covariance"):
        spec["weights"] = draw(Q.weight_specs(N, scalar_ok=False, zero_ok=False))
    else:
        spec["weights"] = draw(Q.weight_specs(N))
    spec["prob"] = draw(st.sampled_from([0.0, 0.25, 0.5, 1.0]))
    spec["ignore"] = draw(st.booleans())
    rmas = ["nan", ["tuple", 0]] if agg in XAGGS else [r for r in Q.RMAS if not (
        r == "plain" and agg == "valid_count" and not spec["ignore"])]
    spec["rma"] = draw(st.sampled_from(rmas))
    spec["shape_mode"] = draw(st.sampled_from(["exact", "padded", "inferred"]))
    # the whole cube may be evaluated with the worker pool on (the blocks are then filled by concurrent tasks);
    # the one-axis reference cubes are always serial
    spec["pool"] = draw(Q.pool_specs())
    return spec


def run(case, kind, dense, commons, shape, pool=None):
    """Evaluate the aggregate on `dense` (list of arrays) with explicit interacting `shape`."""
    import warnings

    from catii import ccube, xcube

    N = case["N"]
    farg = None if case["fact"] is None else Q.fact_arrays(case["fact"], N)[0]
    warg = Q.weight_arrays(case["weights"], N)[0]
    with warnings.catch_warnings():
        warnings.simplefilter("ignore")
        if kind == "ccube":
            dims_ = [Q.build_index(a, c) for a, c in zip(dense, commons)]
        else:
            dims_ = list(dense)
        al = case.get("alias")
        import numpy as _n
        if al and len(dims_) > al[1] and commons[al[0]] == commons[al[1]] and dense[al[0]].shape == dense[al[1]].shape \
                and _n.array_equal(dense[al[0]], dense[al[1]]):
            dims_[al[1]] = dims_[al[0]]  # one object serving as two dimensions
        cube = (ccube if kind == "ccube" else xcube)(dims_, shape)
        if pool and getattr(cube, "scaffold_size", 0) > 2:
            with Q.pool_on(cube, pool):
                res = Q.call_agg(cube, case["agg"], farg, warg, case["ignore"], case["rma"], prob=case["prob"])
        else:
            res = Q.call_agg(cube, case["agg"], farg, warg, case["ignore"], case["rma"], prob=case["prob"])
    return Q.normalise(res, case["rma"], "%s.%s" % (kind, case["agg"]))


def edited_index_pass(case, dense, commons, shape, tails, rec):
    """Tabulate, withdraw one whole entry of a multi-axis dimension in place, tabulate again with the SAME index
    objects: every block must equal the cube of the (edited) one-axis slices."""
    import warnings

    import numpy

    from catii import ccube

    j = next((n for n, t in enumerate(tails) if len(t)), None)
    if j is None:
        return
    N = case["N"]
    farg = None if case["fact"] is None else Q.fact_arrays(case["fact"], N)[0]
    warg = Q.weight_arrays(case["weights"], N)[0]
    idxs = [Q.build_index(a, c) for a, c in zip(dense, commons)]
    keys = sorted(idxs[j].keys())
    if not keys:
        return
    what = "ccube.%s" % case["agg"]
    with warnings.catch_warnings():
        warnings.simplefilter("ignore")
        with libcall(what + " before / after an in-place edit of a dimension"):
            kept = ccube(idxs, shape)  # ONE cube object serves both tabulations (every second case: a new cube object)
            Q.call_agg(kept, case["agg"], farg, warg, case["ignore"], case["rma"], prob=case["prob"])
            key = keys[len(keys) // 2]
            rows = numpy.array(idxs[j][key], copy=True)
            dense2 = [a.copy() for a in dense]
            same_col = [k for k in keys if k[1:] == key[1:] and k != key]
            if same_col and N % 3 != 0:
                # recode: the rows of one listed category move to another category already listed in that column
                # (shape, common value, number of entries... may all stay what they were)
                moved = rows[: max(1, len(rows) // 2)]
                idxs[j].update({same_col[0]: moved})
                dense2[j][(moved,) + tuple(key[1:])] = same_col[0][0]
                rec.note("in-place recode between two listed categories")
            else:
                idxs[j].difference_update({key: rows})  # the whole entry is withdrawn
                dense2[j][(rows,) + tuple(key[1:])] = commons[j]
            cube2 = kept if N % 2 else ccube(idxs, shape)
            res = Q.call_agg(cube2, case["agg"], farg, warg, case["ignore"], case["rma"], prob=case["prob"])
        wv, wm = Q.normalise(res, case["rma"], what)
        for pos in itertools.product(*[itertools.product(*[range(e) for e in t]) for t in tails]):
            flat = tuple(x for p in pos for x in p)
            sub = [a[(slice(None),) + p] for a, p in zip(dense2, pos)]
            with libcall(what + " (one-axis slices %s of the edited data)" % (flat,)):
                bv, bm = run(case, "ccube", sub, commons, shape)
            gv = wv[flat]
            gm = None if wm is None else wm[flat]
            same_m = gm is None or numpy.array_equal(gm, bm)
            sel = numpy.ones(gv.shape, dtype=bool) if gm is None else ~gm
            if gv.shape != bv.shape or not same_m or not numpy.allclose(gv[sel], bv[sel], rtol=1e-12, atol=0.0, equal_nan=True):
                raise Violation("%s: after dimension %d was edited in place (entry %r recoded / withdrawn), block %s "
                                "differs from the cube of the edited one-axis slices" % (what, j, key, flat),
                                sig=what + " block stale after an in-place edit of a dimension")
    rec.note("re-tabulated after an in-place edit")


def check(case, rec):
    import numpy

    dense = Q.dense_dims(case)
    kind = case["kind"]
    commons = [d["common"] for d in case["dims"]]
    shape_arg, full = Q.cube_shape(case, dense)
    scaffold = Q.scaffold_shape(case)
    f = case["fact"]
    K = None if f is None else f["K"]
    if case["agg"] in ("covariance",):
        fact_axes = (K, K)
    else:
        fact_axes = () if K is None else (K,)
    what = "%s.%s" % (kind, case["agg"])
    with libcall(what + " (whole cube)"):
        if kind == "xcube" and shape_arg is None:
            used = tuple(int(a.max()) + 1 for a in dense)
        else:
            used = full
        wv, wm = run(case, kind, dense, commons, shape_arg, pool=case.get("pool"))
    want_shape = tuple(scaffold) + tuple(used) + fact_axes
    if wv.shape != want_shape:
        raise Violation("%s: result shape %s, expected extra extents %s + category extents %s + fact axes %s"
                        % (what, wv.shape, tuple(scaffold), tuple(used), fact_axes), sig=what + " shape/order of axes")
    tails = [d["tail"] for d in case["dims"]]
    blocks = set()
    nblocks = 0
    for pos in itertools.product(*[itertools.product(*[range(e) for e in t]) for t in tails]):
        flat = tuple(x for p in pos for x in p)
        sub = [a[(slice(None),) + p] for a, p in zip(dense, pos)]
        with libcall(what + " (one-axis slices %s)" % (flat,)):
            bv, bm = run(case, kind, sub, commons, tuple(used))
        gv = wv[flat]
        gm = None if wm is None else wm[flat]
        if gv.shape != bv.shape:
            raise Violation("%s: block %s has shape %s, sub-cube %s" % (what, flat, gv.shape, bv.shape),
                            sig=what + " block shape")
        if gm is not None and not numpy.array_equal(gm, bm):
            raise Violation("%s: block %s differs from the cube of the one-axis slices in its missing cells"
                            % (what, flat), sig=what + " block missing cells differ")
        sel = numpy.ones(gv.shape, dtype=bool) if gm is None else ~gm
        if not numpy.allclose(gv[sel], bv[sel], rtol=1e-12, atol=0.0, equal_nan=True):
            raise Violation("%s: block %s differs from the cube of the one-axis slices in its values"
                            % (what, flat), sig=what + " block values differ")
        nblocks += 1
        blocks.add((gv.tobytes(), None if gm is None else gm.tobytes()))
    rec.count("blocks_compared", nblocks)
    if kind == "ccube" and not case.get("alias"):
        edited_index_pass(case, dense, commons, tuple(used), tails, rec)
    rec.note("kind=" + kind, "agg=" + case["agg"], "extra_axes=%d" % len(scaffold))
    pl = case.get("pool")
    rec.note("whole cube serial" if not pl else "whole cube pooled (%s)" % ("DetPool" if pl.get("schedule") else "real threads"))
    if len(set(scaffold)) >= 2 and len(blocks) >= 2:
        rec.nontrivial()


SUBS = [Sub("blocks", check, strategy=cases, examples={"quick": 2400, "thorough": 80000})]
