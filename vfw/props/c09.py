"""C09 - sorted-set kernels never touch memory outside their buffers (DESIGN.md section 3, C09)."""
import os

from .. import fuzzrun
from .. import kernels as K
from ..core import VERIF, Sub
from .c08 import kernel_seeds

PROPERTY = "C09"
LEVEL = "exploration"
RULE = (
    "The same inputs as C08 (every ordered pair of subsets of three universes of m values; Hypothesis "
    "gap-encoded arrays with overlap patterns and layouts; multi-way unions) are executed against two observer "
    "builds of the working tree's set_operations.pyx: 'bounds' (every boundscheck(False) flipped to True, "
    "wraparound off: any out-of-range memoryview index raises IndexError in-process) with m=7 quick / m=10 "
    "thorough, and 'asan' (the unmodified .pyx compiled with clang -fsanitize=address, run in an exec'd child "
    "with the ASan runtime preloaded; any report aborts the child and is attributed through a case marker) "
    "with m=5 quick / m=8 thorough. Non-trivial = exactly one operand empty, or both non-empty with "
    "overlapping ranges and different maxima (one operand is exhausted strictly before the other, so the "
    "tail handling runs). fuzz_asan: an Atheris / libFuzzer campaign on the coverage-instrumented ASan build "
    "(bytes -> gap-encoded arrays, layouts, k-way lists; empty and seeded corpus; 4 000 executions per shard quick, "
    "500 000 thorough). Enumerated cases are pairwise distinct by construction."
)
ASSUMPTIONS = [
    "the bounds-checked build differs from the shipped kernel only in the boundscheck directive",
    "ASan redzones catch overruns of up to the redzone size next to heap buffers (NumPy data comes from malloc)",
]


def check_obs(case, rec):
    K.check_any(case, rec, "c09", enum=False)


def check_obs_enum(case, rec):
    K.check_any(case, rec, "c09", enum=True)


def enum_bounds(tier, shard, nshards):
    return K.enum_pairs(7 if tier == "quick" else 10, shard, nshards)


def enum_asan(tier, shard, nshards):
    return K.enum_pairs(5 if tier == "quick" else 8, shard, nshards)


def enum_many(tier, shard, nshards):
    plans = [(3, 3), (2, 4)] if tier == "quick" else [(4, 3), (3, 4)]
    for m, k in plans:
        for c in K.enum_many(m, k, shard, nshards):
            yield c


def fuzz_runner(sub, tier, seed, shard, nshards, rec):
    fuzzrun.run_campaign(sub, tier, seed, shard, nshards, rec,
                         os.path.join(VERIF, "vfw", "fuzz", "kernels_fuzz.py"),
                         {"quick": 4000, "thorough": 500000}, asan=True, seed_corpus=kernel_seeds,
                         asan_abort_is_violation=True, mode="c09")


SUBS = [
    Sub("bounds_skew", check_obs_enum, enumerate=K.enum_skewed, exhaustive=True, variant="bounds", marker=True,
        weight=4, shards={"quick": 8, "thorough": 16}),
    Sub("bounds_blocks", check_obs_enum, enumerate=K.enum_blocks, exhaustive=True, variant="bounds", marker=True,
        weight=4, shards={"quick": 8, "thorough": 16}),
    Sub("asan_blocks", check_obs_enum, enumerate=K.enum_blocks, exhaustive=True, variant="asan", marker=True,
        weight=8, shards={"quick": 4, "thorough": 16}),
    Sub("bounds_exh", check_obs_enum, enumerate=enum_bounds, exhaustive=True, variant="bounds",
        marker=True, weight=5),
    Sub("bounds_hyp", check_obs, strategy=lambda tier: K.pair_cases(300), variant="bounds", marker=True,
        examples={"quick": 6000, "thorough": 300000}, shards={"quick": 8, "thorough": 16}),
    Sub("bounds_many", check_obs_enum, enumerate=enum_many, exhaustive=True, variant="bounds", marker=True,
        shards={"quick": 4, "thorough": 8}),
    Sub("asan_exh", check_obs_enum, enumerate=enum_asan, exhaustive=True, variant="asan", marker=True,
        weight=9, shards={"quick": 8, "thorough": 16}),
    Sub("asan_hyp", check_obs, strategy=lambda tier: K.pair_cases(200), variant="asan", marker=True,
        examples={"quick": 2000, "thorough": 100000}, shards={"quick": 4, "thorough": 16}, weight=8),
    Sub("fuzz_asan", check_obs, runner=fuzz_runner, variant="plain", shards={"quick": 2, "thorough": 8},
        rlimit_gb=0, weight=9),
    Sub("asan_many", check_obs_enum, enumerate=enum_many, exhaustive=True, variant="asan", marker=True,
        shards={"quick": 2, "thorough": 8}, weight=7),
]
