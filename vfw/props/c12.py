"""C12 - a torn INDX file is always rejected (DESIGN.md section 3, C12)."""
import os

from .. import indxgen as G
from ..core import Sub, Violation, libcall

PROPERTY = "C12"
LEVEL = "fault_enumeration"
RULE = (
    "files written by IndxIO.save from the C10 strategy (24 B .. ~8 KiB quick, up to ~64 KiB thorough); for each "
    "file EVERY cut point k in [0, len) is enumerated: the real file is truncated in place from len-1 down to 0 "
    "and loaded each time (load needs a descriptor for mmap). Oracle: load raises (any exception type); "
    "returning anything is the violation. Evaluations = loads of torn files. Non-trivial = cut points k >= 16 "
    "(past the fixed header, where only the recorded payload size protects); distinct by (file digest, k), "
    "counted per file as len-16. cuts_other_words: the same enumeration over files laid out by the independent "
    "encoder in the other documented word sizes (1/2/8-byte row-id words, index words wider than needed), because a "
    "reader may treat non-32-bit row ids on a separate path. cuts_many_entries: files with 1 023 .. 4 097 (thorough 8 192) "
    "entries, where a reader may switch to a bulk path; the cut points are SAMPLED there (last 48 bytes, 12 bytes around "
    "every section boundary, every 101st byte) because each load parses thousands of coordinates. cuts_big_entries: independent-encoder files with one entry of "
    "200 .. 70 000 row ids in each row-id word size (around 2^15 / 2^16 for 2-byte words), cuts sampled likewise."
)
ASSUMPTIONS = [
    "a torn write leaves a strict prefix of the intended file (the fault model of the property)",
    "truncation of a real file stands for the crash; page-cache / reordering effects are outside the model",
]


def check(case, rec):
    from catii.indxio import IndxIO

    with libcall("IndxIO.save"):
        data, path = G.save_to_bytes(case)
    n = len(data)
    # the complete file must load (otherwise rejecting prefixes would be vacuous)
    with open(path, "rb") as f:
        with libcall("IndxIO.load(complete file)"):
            IndxIO.load(f)
    with open(path, "r+b") as f:
        for k in range(n - 1, -1, -1):
            os.ftruncate(f.fileno(), k)
            f.seek(0)
            try:
                out = IndxIO.load(f)
            except Exception:
                continue
            desc = "%d entries, common %r" % (len(out[0]), out[1]) if isinstance(out, tuple) else repr(out)
            del out
            raise Violation("load() of the first %d of %d bytes returned (%s) instead of raising"
                            % (k, n, desc), sig="torn file accepted")
    rec.count("torn_loads", n)
    rec.count("files", 1)
    rec.count("cuts_past_header", max(0, n - 16))
    rec.note("len<64" if n < 64 else "len<1024" if n < 1024 else "len>=1024")
    rec.evaluations += n - 1
    rec.nontrivial()
    rec.distinct_by_construction += max(0, n - 16) - 1


def other_word_cases(tier):
    from hypothesis import strategies as st

    from . import c11

    return c11.reader_cases(12 if tier == "quick" else 40, 30)


def check_other_words(case, rec):
    """Torn files in the other documented word sizes (1/2/8-byte row-id words, wider index words)."""
    from catii.indxio import IndxIO

    from .. import indxref as R

    data = R.ref_encode(G.case_list(case), case["common"], iw=case["iw"], rw=case["rw"])
    path = os.path.join(G.scratch_dir(), "c12w.indx")
    with open(path, "wb") as f:
        f.write(data)
    n = len(data)
    with open(path, "rb") as f:
        with libcall("IndxIO.load(complete reference file iw=%d rw=%d)" % (case["iw"], case["rw"])):
            IndxIO.load(f)
    with open(path, "r+b") as f:
        for k in range(n - 1, -1, -1):
            os.ftruncate(f.fileno(), k)
            f.seek(0)
            try:
                out = IndxIO.load(f)
            except Exception:
                continue
            desc = "%d entries" % len(out[0]) if isinstance(out, tuple) else repr(out)
            del out
            raise Violation("load() of the first %d of %d bytes of a file with %d-byte row-id words returned (%s) "
                            "instead of raising" % (k, n, case["rw"], desc), sig="torn file accepted (rw=%d)" % case["rw"])
    rec.count("torn_loads", n)
    rec.note("rw=%d" % case["rw"], "iw=%d" % case["iw"])
    rec.evaluations += n - 1
    if case["rw"] != 4:
        rec.nontrivial()
        rec.distinct_by_construction += max(0, n - 16) - 1


def enum_many_entries(tier, shard, nshards):
    """Files with MANY entries (a fully populated grid of codes x columns: 1 023 .. 4 097 coordinates, 0..2 row ids
    each). Every cut point would cost a full parse of thousands of coordinates, so the cut points are sampled: the last
    48 bytes, 12 bytes around every section boundary, and every 101st byte."""
    i = 0
    for many in ([1023, 1024, 1025, 4096] if tier == "quick" else [255, 256, 1023, 1024, 1025, 2048, 4095, 4096, 4097, 8192]):
        for arity in (1, 2, 3):
            for k in (0, 1):
                if i % nshards == shard:
                    width = 128
                    ents = []
                    for j in range(many):
                        c = [j // width, j % width, j % 3][:arity] if arity >= 2 else [j]
                        ents.append([c, [7 * j + t for t in range((j + k) % 3)]])
                    yield {"common": 0, "arity": arity, "entries": ents, "layout": "plain"}
                i += 1


def check_sampled_cuts(case, rec):
    from catii.indxio import IndxIO

    with libcall("IndxIO.save"):
        data, path = G.save_to_bytes(case)
    n = len(data)
    with open(path, "rb") as f:
        with libcall("IndxIO.load(complete file)"):
            IndxIO.load(f)
    ne = len(case["entries"])
    iw = data[16 + 1 + 4]
    index_end = 16 + 1 + 4 + 1 + iw + iw * case["arity"] * ne
    rw = data[index_end]
    lengths_end = index_end + 1 + rw * ne
    cuts = set(range(max(0, n - 48), n)) | set(range(0, n, 101))
    for b in (16, index_end, lengths_end):
        cuts |= set(range(max(0, b - 6), min(n, b + 6)))
    with open(path, "r+b") as f:
        for k in sorted(cuts, reverse=True):
            os.ftruncate(f.fileno(), k)
            f.seek(0)
            try:
                out = IndxIO.load(f)
            except Exception:
                continue
            desc = "%d entries" % len(out[0]) if isinstance(out, tuple) else repr(out)
            del out
            raise Violation("load() of the first %d of %d bytes of a file with %d entries returned (%s) instead of "
                            "raising" % (k, n, ne, desc), sig="torn file with many entries accepted")
    rec.count("torn_loads", len(cuts))
    rec.note("entries=%d" % ne, "arity=%d" % case["arity"])
    rec.evaluations += len(cuts) - 1
    rec.nontrivial_enum()


def enum_big_entries(tier, shard, nshards):
    """One very long entry in each documented row-id word size (lengths around 2^15 / 2^16 for 2-byte words, 40 000 and
    70 000 for 4- and 8-byte words, 200 / 255 for 1-byte words) next to a short one; cut points sampled."""
    i = 0
    plans = [(1, 200), (1, 255), (2, 32767), (2, 32768), (2, 40000), (2, 65535), (4, 40000), (4, 70000), (8, 40000)]
    for rw, n in plans:
        for first in (True, False):
            if i % nshards == shard:
                big = [[7], list(range(n))]
                small = [[2], [0, 3]]
                yield {"common": 0, "arity": 1, "entries": [big, small] if first else [small, big], "iw": 1, "rw": rw,
                       "layout": "plain"}
            i += 1


def check_big_entries(case, rec):
    from catii.indxio import IndxIO

    from .. import indxref as R

    data = R.ref_encode(G.case_list(case), case["common"], iw=case["iw"], rw=case["rw"])
    path = os.path.join(G.scratch_dir(), "c12b.indx")
    with open(path, "wb") as f:
        f.write(data)
    n = len(data)
    with open(path, "rb") as f:
        with libcall("IndxIO.load(complete reference file, one entry of %d row ids, rw=%d)" % (
                max(len(r) for _, r in case["entries"]), case["rw"])):
            IndxIO.load(f)
    ne = len(case["entries"])
    index_end = 16 + 1 + 4 + 1 + case["iw"] + case["iw"] * case["arity"] * ne
    lengths_end = index_end + 1 + case["rw"] * ne
    cuts = set(range(max(0, n - 64), n)) | set(range(0, n, 1009)) | set(range(n - 1, max(0, n - 70000), -4093))
    for b in (16, index_end, lengths_end):
        cuts |= set(range(max(0, b - 6), min(n, b + 6)))
    with open(path, "r+b") as f:
        for k in sorted(cuts, reverse=True):
            os.ftruncate(f.fileno(), k)
            f.seek(0)
            try:
                out = IndxIO.load(f)
            except Exception:
                continue
            desc = "%d entries" % len(out[0]) if isinstance(out, tuple) else repr(out)
            del out
            raise Violation("load() of the first %d of %d bytes of a file with an entry of %d row ids (%d-byte words) "
                            "returned (%s) instead of raising" % (k, n, max(len(r) for _, r in case["entries"]),
                                                                  case["rw"], desc),
                            sig="torn file with a very long entry accepted (rw=%d)" % case["rw"])
    rec.count("torn_loads", len(cuts))
    rec.note("rw=%d" % case["rw"])
    rec.evaluations += len(cuts) - 1
    rec.nontrivial_enum()


SUBS = [
    Sub("cuts_big_entries", check_big_entries, enumerate=enum_big_entries, exhaustive=False,
        shards={"quick": 6, "thorough": 6}),
    Sub("cuts_many_entries", check_sampled_cuts, enumerate=enum_many_entries, exhaustive=False,
        shards={"quick": 8, "thorough": 16}),
    Sub("cuts_other_words", check_other_words, strategy=other_word_cases,
        examples={"quick": 600, "thorough": 15000}),
    Sub("cuts", check, strategy=lambda tier: G.indx_cases(40 if tier == "quick" else 200,
                                                         50 if tier == "quick" else 300),
        examples={"quick": 1600, "thorough": 30000}, exhaustive=False),
]
