"""C12 - a torn INDX file is always rejected (DESIGN.md section 3, C12)."""
import os

from .. import indxgen as G
from ..core import Sub, Violation, libcall

PROPERTY = "C12"
LEVEL = "fault_enumeration"
RULE = (
    "files written by IndxIO.save from the C10 strategy (24 B .. ~8 KiB quick, up to ~64 KiB thorough); for each "
    "file EVERY cut point k in [0, len) is enumerated: the real file is truncated in place from len-1 down to 0 "
    "and loaded each time (load needs a descriptor for mmap). Oracle: load raises (any exception type); "
    "returning anything is the violation. Evaluations = loads of torn files. Non-trivial = cut points k >= 16 "
    "(past the fixed header, where only the recorded payload size protects); distinct by (file digest, k), "
    "counted per file as len-16. cuts_other_words: the same enumeration over files laid out by the independent "
    "encoder in the other documented word sizes (1/2/8-byte row-id words, index words wider than needed), because a "
    "reader may treat non-32-bit row ids on a separate path."
)
ASSUMPTIONS = [
    "a torn write leaves a strict prefix of the intended file (the fault model of the property)",
    "truncation of a real file stands for the crash; page-cache / reordering effects are outside the model",
]


def check(case, rec):
    from catii.indxio import IndxIO

    with libcall("IndxIO.save"):
        data, path = G.save_to_bytes(case)
    n = len(data)
    # the complete file must load (otherwise rejecting prefixes would be vacuous)
    with open(path, "rb") as f:
        with libcall("IndxIO.load(complete file)"):
            IndxIO.load(f)
    with open(path, "r+b") as f:
        for k in range(n - 1, -1, -1):
            os.ftruncate(f.fileno(), k)
            f.seek(0)
            try:
                out = IndxIO.load(f)
            except Exception:
                continue
            desc = "%d entries, common %r" % (len(out[0]), out[1]) if isinstance(out, tuple) else repr(out)
            del out
            raise Violation("load() of the first %d of %d bytes returned (%s) instead of raising"
                            % (k, n, desc), sig="torn file accepted")
    rec.count("torn_loads", n)
    rec.count("files", 1)
    rec.count("cuts_past_header", max(0, n - 16))
    rec.note("len<64" if n < 64 else "len<1024" if n < 1024 else "len>=1024")
    rec.evaluations += n - 1
    rec.nontrivial()
    rec.distinct_by_construction += max(0, n - 16) - 1


def other_word_cases(tier):
    from hypothesis import strategies as st

    from . import c11

    return c11.reader_cases(12 if tier == "quick" else 40, 30)


def check_other_words(case, rec):
    """Torn files in the other documented word sizes (1/2/8-byte row-id words, wider index words)."""
    from catii.indxio import IndxIO

    from .. import indxref as R

    data = R.ref_encode(G.case_list(case), case["common"], iw=case["iw"], rw=case["rw"])
    path = os.path.join(G.scratch_dir(), "c12w.indx")
    with open(path, "wb") as f:
        f.write(data)
    n = len(data)
    with open(path, "rb") as f:
        with libcall("IndxIO.load(complete reference file iw=%d rw=%d)" % (case["iw"], case["rw"])):
            IndxIO.load(f)
    with open(path, "r+b") as f:
        for k in range(n - 1, -1, -1):
            os.ftruncate(f.fileno(), k)
            f.seek(0)
            try:
                out = IndxIO.load(f)
            except Exception:
                continue
            desc = "%d entries" % len(out[0]) if isinstance(out, tuple) else repr(out)
            del out
            raise Violation("load() of the first %d of %d bytes of a file with %d-byte row-id words returned (%s) "
                            "instead of raising" % (k, n, case["rw"], desc), sig="torn file accepted (rw=%d)" % case["rw"])
    rec.count("torn_loads", n)
    rec.note("rw=%d" % case["rw"], "iw=%d" % case["iw"])
    rec.evaluations += n - 1
    if case["rw"] != 4:
        rec.nontrivial()
        rec.distinct_by_construction += max(0, n - 16) - 1


SUBS = [
    Sub("cuts_other_words", check_other_words, strategy=other_word_cases,
        examples={"quick": 600, "thorough": 15000}),
    Sub("cuts", check, strategy=lambda tier: G.indx_cases(40 if tier == "quick" else 200,
                                                         50 if tier == "quick" else 300),
        examples={"quick": 1600, "thorough": 30000}, exhaustive=False),
]
