"""C03 - index cube, array cube and direct group-by agree (DESIGN.md section 3, C03)."""
from hypothesis import strategies as st

from .. import cubes as Q
from ..core import Sub, Violation, libcall

PROPERTY = "C03"
LEVEL = "exploration"
RULE = (
    "Hypothesis cubes as in C02 (0..3 dims quick, up to 4 thorough; 1..3 axes; any common; inferred / exact / padded "
    "shape) x aggregate in {count, valid_count, sum, mean} x fact form (NaN-marked or (values, validity) with junk "
    "under False validity, 1-D or (N, K<=3), float64 or int64, arrays or nested lists) x weight form (None, scalar "
    "incl. 0 and NaN, float or int array, NaN-marked or with validity and junk, one in six float arrays with weights 10^9 apart in magnitude) x ignore_missing x report format. "
    "The array cube receives the same dense data cast to a drawn integer dtype (int8..uint64), with explicit or "
    "inferred shape; the two cubes get fresh copies of the fact / weight arguments, or the very same objects one after "
    "the other in either order. Oracle: pure-Python per-cell group-by with math.fsum; three-way comparison oracle / ccube / "
    "xcube: missing cells exactly, values to rtol 1e-12 in the dyadic mode (facts k/8, weights m/1024, all sums "
    "exact) and to 1e-9 x grand total in the rough-float mode. Non-trivial = (a weight or a multi-column fact) and "
    "at least one cell whose rows are partly valid and partly missing (the two policies differ there). "
    "Distinct by case content. One case in 25 is LARGE (300 / 1 100 / 2 500 rows, 2..5 or hundreds of categories, up "
    "to 10 fact columns; stored as a recipe of three integers)."
)
ASSUMPTIONS = [
    "weights are >= 0, non-zero weights >= 2^-10 (ffunc_mean documents |sum w| < 1e-8 as zero)",
    "valid_count with a plain replacement value under propagation is excluded (documented shortcut, see C04)",
    "an xcube with zero rows gets an explicit shape; values under a False validity are arbitrary",
]

AGGS = ["count", "valid_count", "sum", "mean"]


@st.composite
def cases(draw, tier, aggs=AGGS, max_nd=None, big=True):
    if max_nd is None:
        max_nd = 3 if tier == "quick" else 4
    if big and draw(st.integers(0, 24)) == 0:
        # hundreds / thousands of rows, many categories, up to ten fact columns (stored as a recipe)
        spec = draw(Q.large_specs(aggs, max_n=4096))  # the 2^16 / 2^17-row recipes are C04's
        spec["ignore"] = draw(st.booleans())
        rmas = [r for r in Q.RMAS if not (r == "plain" and spec["agg"] == "valid_count" and not spec["ignore"])]
        spec["rma"] = draw(st.sampled_from(rmas))
        spec["via"] = draw(st.sampled_from(["method", "func_tracing_off"]))
        spec["xdtypes"] = ["int64"] * len(spec["dims"])
        spec["xexplicit"] = draw(st.booleans())
        spec["args"] = draw(st.sampled_from(["fresh", "shared", "shared_xcube_first"]))
        return spec
    if big and draw(st.integers(0, 9)) == 0:
        # a boundary extent (255 .. 65537): the array cube then addresses its cells with uint16 / uint32 strides
        spec = draw(Q.cube_specs(max_nd=2, min_nd=1, max_n=20, big_ok=True, tails=((), (), (2,))))
    else:
        spec = draw(Q.cube_specs(max_nd=max_nd, min_nd=0, max_n=40 if tier == "quick" else 60,
                                 tails=((), (), (), (2,), (3,), (1,), (2, 2))))
    N = spec["N"]
    agg = draw(st.sampled_from(aggs))
    dyadic = draw(st.integers(0, 4)) != 0
    spec["agg"] = agg
    spec["fact"] = None if agg == "count" else draw(Q.fact_specs(N, dyadic=dyadic))
    spec["weights"] = draw(Q.weight_specs(N))
    spec["ignore"] = draw(st.booleans())
    rmas = Q.RMAS
    if agg == "valid_count" and not spec["ignore"]:
        rmas = [r for r in Q.RMAS if r != "plain"]
    spec["rma"] = draw(st.sampled_from(rmas))
    spec["via"] = draw(st.sampled_from(["method", "method", "func_tracing_off", "explicit_N"]))
    spec["xdtypes"] = draw(st.lists(st.sampled_from(Q.INT_DTYPES), min_size=len(spec["dims"]),
                                    max_size=len(spec["dims"])))
    spec["xexplicit"] = draw(st.booleans())
    # the two cube types computed one after the other on the SAME fact / weight objects (in either order), as a caller
    # comparing them would; "fresh" gives each cube its own copies
    spec["args"] = draw(st.sampled_from(["fresh", "shared", "shared_xcube_first"]))
    return spec


def expected(case, dense, full):
    """Oracle output for the case: (values, missing, mixed cells, tolerance)."""
    import numpy

    N = case["N"]
    warg, w, wvalid = Q.weight_arrays(case["weights"], N)
    if case["fact"] is None:
        farg, fvals, fvalid = None, None, None
    else:
        farg, fvals, fvalid = Q.fact_arrays(case["fact"], N)
    exp_v, exp_m, mixed = Q.oracle(dense, full, case["agg"], N, fvals, fvalid, w, wvalid, case["ignore"])
    tol = 0.0
    wrough = bool(case["weights"] and case["weights"].get("rough"))
    if (case["fact"] is not None and not case["fact"]["dyadic"]) or wrough:
        if fvals is None:
            total = float(numpy.abs(w).sum()) if N else 0.0
        else:
            total = float(numpy.abs(fvals * (w if fvals.ndim == 1 else w[:, None])).sum()) if N else 0.0
        tol = 1e-9 * max(total, 1.0)
    return farg, warg, exp_v, exp_m, mixed, tol


def fix0d(gv, gm, exp_v):
    if gv.shape != exp_v.shape and gv.size == exp_v.size and exp_v.ndim <= 1:
        gv = gv.reshape(exp_v.shape)
        gm = None if gm is None else gm.reshape(exp_v.shape)
    return gv, gm


def check(case, rec):
    import numpy

    if case.get("recipe"):
        rec.note("large recipe case (N=%d)" % case["N"], "large rows " + str(case.get("rows")))
    case = Q.expand(case)
    dense = Q.dense_dims(case)
    N = case["N"]
    nd = len(dense)
    agg = case["agg"]
    _, full = Q.cube_shape(case, dense)
    ns = len(Q.scaffold_shape(case))
    farg, warg, exp_v, exp_m, mixed, tol = expected(case, dense, full)
    Narg = N if (nd == 0 and agg == "count") else None

    sharing = case.get("args", "fresh")
    if sharing == "shared_xcube_first":
        with libcall("xcube.%s (first use of the shared arguments)" % agg):
            xc0, _ = Q.make_xcube(case, dense, case["xdtypes"], force_explicit=case["xexplicit"])
            Q.call_agg(xc0, agg, farg, warg, case["ignore"], case["rma"], N=Narg)
    with libcall("ccube(...)"):
        cc, _ = Q.make_ccube(case, dense)
    via = case.get("via", "method")
    if via == "explicit_N" and agg == "count":
        Narg = N  # the documented N= argument, given although the dimensions already determine it
    with libcall("ccube.%s" % agg):
        if via == "func_tracing_off":
            # the same aggregate through an explicit function object built with tracing switched off
            from catii import ffuncs

            ra = Q.rma_arg(case["rma"])
            if agg == "count":
                fobj = ffuncs.ffunc_count(warg, Narg, case["ignore"], ra, tracing=False)
            else:
                fobj = getattr(ffuncs, "ffunc_" + agg)(farg, warg, case["ignore"], ra, tracing=False)
            res = cc.calculate([fobj])[0]
        else:
            cc_N = Narg
            w_spec = case["weights"]
            if nd == 0 and agg == "count" and w_spec is not None and w_spec["kind"] == "array" and not w_spec["as_list"] \
                    and via == "method" and isinstance(warg, numpy.ndarray):
                cc_N = None  # a weight array determines the number of rows of a dimensionless index cube
                rec.note("0-d weighted count without N")
            res = Q.call_agg(cc, agg, farg, warg, case["ignore"], case["rma"], N=cc_N)
    gv, gm = Q.normalise(res, case["rma"], "ccube.%s" % agg)
    gv, gm = fix0d(gv, gm, exp_v)
    Q.compare("ccube.%s" % agg, gv, gm, exp_v, exp_m, tol_abs=tol)
    w_spec0 = case["weights"]
    if agg == "count" and nd and N >= 2 and not case.get("recipe") and (w_spec0 is None or w_spec0["kind"] == "scalar"):
        # a count function object (no weights or a scalar weight) that has served a cube over the first half of the rows
        # is then used on the full cube: the three ways of counting must still agree
        from catii import ffuncs

        ra = Q.rma_arg(case["rma"])
        with libcall("one ffunc_count object on a cube over half of the rows, then on the full cube"):
            fobj = ffuncs.ffunc_count(warg, None, case["ignore"], ra)
            commons0 = [d["common"] for d in case["dims"]]
            half = type(cc)([Q.build_index(a[: N // 2], c) for a, c in zip(dense, commons0)], tuple(full))
            half.calculate([fobj])
            cc2, _ = Q.make_ccube(case, dense)
            res2 = cc2.calculate([fobj])[0]
        gv2, gm2 = Q.normalise(res2, case["rma"], "ccube.count (re-used function object)")
        gv2, gm2 = fix0d(gv2, gm2, exp_v)
        Q.compare("ccube.count [function object re-used after a cube of %d rows]" % (N // 2), gv2, gm2, exp_v, exp_m, tol_abs=tol)

    if sharing == "fresh":
        farg, warg, _, _, _, _ = expected(case, dense, full)
    with libcall("xcube(...)"):
        xc, used = Q.make_xcube(case, dense, case["xdtypes"], force_explicit=case["xexplicit"])
    with libcall("xcube.%s" % agg):
        res = Q.call_agg(xc, agg, farg, warg, case["ignore"], case["rma"], N=Narg)
    xv, xm = Q.normalise(res, case["rma"], "xcube.%s" % agg)
    ev, em = exp_v, exp_m
    if tuple(used) != tuple(full):
        ev, em, rest_missing = Q.crop_to(exp_v, exp_m, ns, used, full)
        if not rest_missing:
            raise Violation("harness: oracle has rows outside the xcube's inferred shape", sig="harness")
        rec.note("xcube inferred shape smaller (common beyond data)")
    xv, xm = fix0d(xv, xm, ev)
    Q.compare("xcube.%s" % agg, xv, xm, ev, em, tol_abs=tol)

    w = case["weights"]
    rec.note("args=" + sharing)
    rec.note("agg=" + agg, "nd=%d" % nd, "ignore=%s" % case["ignore"], "via=" + case.get("via", "method"),
             "weights=" + ("none" if w is None else w["kind"] + ("/" + w.get("form", "") if w["kind"] == "array" else "")
                           + ("/rough" if w is not None and w.get("rough") else "")
                           + ("/wide magnitudes" if w is not None and w.get("wide") else "")),
             "rma=" + (case["rma"] if isinstance(case["rma"], str) else "tuple"))
    if case["fact"] is not None:
        f = case["fact"]
        rec.note("fact=%s/%s/K=%s%s" % (f["dtype"], f["form"], f["K"], "/rough" if not f["dyadic"] else ""))
    if mixed:
        rec.note("has mixed cell")
    if any(d.get("big") for d in case["dims"]):
        rec.note("boundary extent")
    if case.get("readonly"):
        rec.note("read-only row-id arrays")
    multi = case["fact"] is not None and (case["fact"]["K"] or 0) >= 2
    if (w is not None or multi) and mixed:
        rec.nontrivial()


SUBS = [Sub("threeway", check, strategy=cases, examples={"quick": 10000, "thorough": 400000})]
