"""C17 - aggregations are pure: inputs untouched, no hidden state between calls (DESIGN.md 3, C17)."""
import warnings

from hypothesis import strategies as st

from .. import cubes as Q
from ..core import Sub, Violation, libcall
from . import c03

PROPERTY = "C17"
LEVEL = "exploration"
RULE = (
    "aggs: Hypothesis cubes (both types, 0..3 dims, 1..3 axes) with ONE fact and ONE weight object shared by a list L "
    "of 2..4 aggregate-function objects (count / valid_count / sum / mean, plus stddev, quantile, min, max, "
    "covariance, corrcoef on the array cube), junk under False validity, optionally the same array object passed as "
    "fact and as weight. Oracle: deep snapshots (dtype, shape, bytes of every array; entries, common, shape of every "
    "index; nested lists) of every argument before == after all calls; calculate(perm(L))[i] == calculate([fresh "
    "twin of L[i]])[0] (a third of the lists contain the same object twice); a second calculate with the same objects returns the same arrays; the same objects on a "
    "second cube built from equal data return the same arrays; an unweighted count object is also moved to a cube "
    "with a different number of rows and back. index_methods: every non-mutating index method "
    "(to_array, copy, filtered, sliced, slices1d, reindexed, collapsed, column_stack, common_rowids, get / items / "
    "to_dict with force, from_array with counts / mapping, cube construction, walk, product) leaves the receiver "
    "and every argument (mask, mapping, precedence list, counts dict, other indexes) byte-identical. Non-trivial "
    "(aggs) = junk under a False validity or a shared object passed twice, and L holding >= 2 different aggregates; "
    "(index_methods) = the receiver has >= 2 entries. Distinct by case content."
)
ASSUMPTIONS = c03.ASSUMPTIONS + [
    "dictionary key order is not part of an argument's value; arrays are compared by dtype, shape and bytes",
]

CAGGS = ["count", "valid_count", "sum", "mean"]
XAGGS = CAGGS + ["stddev", "quantile", "min", "max", "covariance", "corrcoef"]


@st.composite
def cases(draw, tier):
    kind = draw(st.sampled_from(["ccube", "xcube"]))
    spec = draw(Q.cube_specs(max_nd=3, min_nd=0, max_n=25, min_n=1,
                             tails=((), (), (), (2,), (3,), (2, 2))))
    N = spec["N"]
    spec["kind"] = kind
    f = draw(Q.fact_specs(N, dtypes=("float",)))
    f["form"] = draw(st.sampled_from(["nan", "tuple", "tuple"]))
    spec["fact"] = f
    spec["weights"] = draw(Q.weight_specs(N, scalar_ok=False, zero_ok=False, kinds=("none", "array", "array")))
    spec["fact_is_weight"] = (f["K"] is None and f["form"] == "nan" and draw(st.integers(0, 3)) == 0)
    n = draw(st.integers(2, 4))
    funcs = []
    for _ in range(n):
        agg = draw(st.sampled_from(CAGGS if kind == "ccube" else XAGGS))
        funcs.append({"agg": agg, "ignore": draw(st.booleans()),
                      "rma": draw(st.sampled_from(["nan", ["tuple", 0], "plain"])),
                      "prob": draw(st.sampled_from([0.0, 0.5, 0.3, 1.0])),
                      "weighted": draw(st.booleans()),
                      "tracing": draw(st.sampled_from([None, True, False]))})
    spec["funcs"] = funcs
    spec["perm"] = draw(st.permutations(list(range(n))))
    # the SAME function object may appear more than once in the list handed to calculate
    spec["repeat"] = draw(st.one_of(st.none(), st.none(), st.integers(0, n - 1)))
    return spec


def snapshot(x):
    """Deep, order-insensitive (for dicts) snapshot of an argument."""
    import numpy

    if isinstance(x, numpy.ndarray):
        return ("arr", x.dtype.str, x.shape, x.tobytes())
    if isinstance(x, dict):
        items = sorted(((repr(k), snapshot(v)) for k, v in x.items()))
        extra = (getattr(x, "common", None), getattr(x, "shape", None))
        return ("dict", type(x).__name__, repr(extra), tuple(items))
    if isinstance(x, (list, tuple)):
        return (type(x).__name__, tuple(snapshot(v) for v in x))
    if isinstance(x, float) and x != x:
        return ("nan",)
    return ("val", repr(x))


def make_func(kind, spec, farg, warg, N=None):
    from catii import ffuncs, xfuncs

    mod = ffuncs if kind == "ccube" else xfuncs
    pre = "ffunc_" if kind == "ccube" else "xfunc_"
    agg = spec["agg"]
    ra = Q.rma_arg(spec["rma"])
    w = warg if spec["weighted"] else None
    cls = getattr(mod, pre + agg)
    kw = {}
    if kind == "ccube" and spec.get("tracing") is not None:
        kw["tracing"] = bool(spec["tracing"])  # ffuncs build a different closure when tracing is off
    if agg == "count":
        return cls(w, N, spec["ignore"], ra, **kw)
    if agg in ("max", "min"):
        return cls(farg, spec["ignore"], ra)
    if agg == "quantile":
        return cls(farg, spec["prob"], w, spec["ignore"], ra)
    return cls(farg, w, spec["ignore"], ra, **kw)


def deep_copy(res):
    import numpy

    if isinstance(res, tuple):
        return tuple(deep_copy(x) for x in res)
    return numpy.array(res, copy=True)


def scribble(res):
    import numpy

    if isinstance(res, tuple):
        for x in res:
            scribble(x)
    elif isinstance(res, numpy.ndarray) and res.flags.writeable and res.size:
        res[...] = True if res.dtype.kind == "b" else 77


def same(a, b):
    import numpy

    if isinstance(a, tuple) or isinstance(b, tuple):
        return (isinstance(a, tuple) and isinstance(b, tuple) and len(a) == len(b)
                and all(same(x, y) for x, y in zip(a, b)))
    a, b = numpy.asarray(a), numpy.asarray(b)
    return a.dtype == b.dtype and a.shape == b.shape and numpy.array_equal(a, b, equal_nan=True)


def check(case, rec):
    import numpy

    from catii import ccube, xcube

    kind = case["kind"]
    N = case["N"]
    dense = Q.dense_dims(case)
    shape_arg, full = Q.cube_shape(case, dense)
    if kind == "xcube" and shape_arg is None and any(a.size == 0 for a in dense):
        shape_arg = full
    fspec = dict(case["fact"])
    funcs = [dict(f) for f in case["funcs"]]
    for f in funcs:
        if f["agg"] in ("covariance", "corrcoef") and (fspec["K"] or 0) < 2:
            f["agg"] = "sum"
        if f["agg"] in ("min", "max") and fspec["K"] is not None:
            f["agg"] = "mean"
        if f["agg"] == "corrcoef":
            f["weighted"] = False
    farg, _, _ = Q.fact_arrays(fspec, N)
    warg, _, _ = Q.weight_arrays(case["weights"], N)
    if case["fact_is_weight"] and isinstance(farg, numpy.ndarray):
        warg = farg
        shared = True
    else:
        shared = False
    commons = [d["common"] for d in case["dims"]]

    def dims_for():
        if kind == "ccube":
            return [Q.build_index(a, c) for a, c in zip(dense, commons)]
        return [a.copy() for a in dense]

    def cube_for(dims):
        return (ccube if kind == "ccube" else xcube)(dims, shape_arg)

    dims_a, dims_b = dims_for(), dims_for()
    args = {"fact": farg, "weights": warg, "dims_a": dims_a, "dims_b": dims_b}
    before = {k: snapshot(v) for k, v in args.items()}
    what = "%s.calculate" % kind
    with warnings.catch_warnings():
        warnings.simplefilter("ignore")
        with libcall(what):
            NN = N if not dense else None
            L = [make_func(kind, f, farg, warg, NN) for f in funcs]
            cube_a = cube_for(dims_a)
            alone = []
            for f in funcs:
                twin = make_func(kind, f, farg, warg, NN)
                alone.append(cube_for(dims_a).calculate([twin])[0])
            perm = list(case["perm"])
            if case.get("repeat") is not None:
                perm = perm + [case["repeat"]]
            together = cube_a.calculate([L[i] for i in perm])
            # the caller owns what it gets back: overwrite the returned arrays in place before calculating again
            handed_out, together = together, [deep_copy(r) for r in together]
            for r in handed_out:
                scribble(r)
            again = cube_a.calculate([L[i] for i in perm])
            other = cube_for(dims_b).calculate(list(L))
            once_more = [cube_a.calculate([L[i]])[0] for i in range(len(L))]
            # objects that first served cubes of ANOTHER dimensionality over the same rows (the grand total of a
            # 0-dimensional cube, a cube over the first dimension alone) must give the same answers afterwards
            toured = None
            if dense and N > 0:
                T = [make_func(kind, f, farg, warg, N) for f in funcs]  # N given: a 0-d count needs it
                cube_cls = ccube if kind == "ccube" else xcube
                cube_cls([]).calculate(list(T))
                if len(dense) >= 2:
                    cube_cls(dims_for()[:1]).calculate(list(T))
                toured = [cube_for(dims_a).calculate([t])[0] for t in T]
            # an unweighted count holds no row-aligned argument, so the same object may also serve a cube with
            # ANOTHER number of rows: it must not remember anything about the first one
            other_rows = []
            scalar_w = warg is not None and not isinstance(warg, (tuple, list, numpy.ndarray))
            counts_only = [i for i, f in enumerate(funcs) if f["agg"] == "count" and (not f["weighted"] or scalar_w)]
            if counts_only and dense and N >= 2:
                extra = [numpy.concatenate([a, a[: 1 + N // 2]], axis=0) for a in dense]
                if kind == "ccube":
                    dims_c = [Q.build_index(a, c) for a, c in zip(extra, commons)]
                else:
                    dims_c = [a.copy() for a in extra]
                for i in counts_only:
                    used = cube_for(dims_c).calculate([L[i]])[0]
                    fresh = cube_for(dims_c).calculate([make_func(kind, funcs[i], farg, warg, NN)])[0]
                    back = cube_a.calculate([L[i]])[0]
                    other_rows.append((i, used, fresh, back))
            if dense and N >= 2 and case["perm"] and case["perm"][0] % 2 == 0:
                # the same for a count with a SCALAR weight (a constant design weight kept as one shared function object)
                extra = [numpy.concatenate([a, a[: 1 + N // 2]], axis=0) for a in dense]
                dims_c = [Q.build_index(a, c) for a, c in zip(extra, commons)] if kind == "ccube" else [a.copy() for a in extra]
                spec = {"agg": "count", "ignore": False, "rma": "nan", "weighted": True, "tracing": None, "prob": 0.5}
                shared_count = make_func(kind, spec, None, 0.5, None)
                first = cube_a.calculate([shared_count])[0]
                used = cube_for(dims_c).calculate([shared_count])[0]
                fresh = cube_for(dims_c).calculate([make_func(kind, spec, None, 0.5, None)])[0]
                back = cube_a.calculate([shared_count])[0]
                if not same(used, fresh) or not same(back, first):
                    raise Violation("%s: a scalar-weighted count object used on a cube and then on a cube with a different "
                                    "number of rows differs from a fresh object there (or on its way back)" % what,
                                    sig="%s count object remembers its first cube" % kind)
    # results depend on the arguments' CURRENT content: edit the fact array in place and compute again
    edited = None
    if isinstance(farg, numpy.ndarray) and farg.dtype.kind == "f" and farg.size >= 2 and not shared:
        flat = farg.reshape(-1)
        nanpos = numpy.flatnonzero(numpy.isnan(flat))
        okpos = numpy.flatnonzero(~numpy.isnan(flat))
        if len(okpos):
            flat[okpos[0]] = numpy.nan          # a value is voided ...
        if len(nanpos):
            flat[nanpos[-1]] = 2.5              # ... and a missing one is filled in
        with warnings.catch_warnings():
            warnings.simplefilter("ignore")
            with libcall(what + " after an in-place edit of the fact array"):
                after_edit = [cube_for(dims_a).calculate([make_func(kind, f, farg, warg, NN)])[0] for f in funcs]
                clone = farg.copy()
                on_clone = [cube_for(dims_a).calculate([make_func(kind, f, clone, warg, NN)])[0] for f in funcs]
        edited = (after_edit, on_clone)
    for j, i in enumerate(perm):
        if not same(together[j], alone[i]):
            raise Violation("%s: %s computed together with %s (position %d) differs from computing it alone"
                            % (what, funcs[i]["agg"], [funcs[k]["agg"] for k in perm], j),
                            sig="%s together != alone (%s)" % (kind, funcs[i]["agg"]))
        if not same(again[j], together[j]):
            raise Violation("%s: second calculate with the same objects changed the result of %s"
                            % (what, funcs[i]["agg"]), sig="%s repeat differs (%s)" % (kind, funcs[i]["agg"]))
    for i in range(len(L)):
        if not same(other[i], alone[i]):
            raise Violation("%s: %s re-used on a second cube built from equal data gives a different result"
                            % (what, funcs[i]["agg"]), sig="%s reuse on other cube differs (%s)" % (kind, funcs[i]["agg"]))
        if not same(once_more[i], alone[i]):
            raise Violation("%s: %s re-used alone after a joint run gives a different result"
                            % (what, funcs[i]["agg"]), sig="%s reuse alone differs (%s)" % (kind, funcs[i]["agg"]))
    if toured is not None:
        for i, t in enumerate(toured):
            if not same(t, alone[i]):
                raise Violation("%s: a %s object that first served a 0-dimensional cube (and a cube over the first "
                                "dimension alone) over the same rows gives a different result on the full cube than "
                                "a fresh object" % (what, funcs[i]["agg"]),
                                sig="%s object remembers a cube of another dimensionality (%s)" % (kind, funcs[i]["agg"]))
    if edited is not None:
        for i, (x, y) in enumerate(zip(*edited)):
            if not same(x, y):
                raise Violation("%s: after an in-place edit of the fact array, %s computed on the edited array differs "
                                "from the same aggregate on an equal copy of it (something remembered the old content)"
                                % (what, funcs[i]["agg"]), sig="%s result depends on an earlier content of an argument" % kind)
    for i, used, fresh, back in other_rows:
        if not same(used, fresh):
            raise Violation("%s: a count object used on one cube and then on a cube with a different number of rows "
                            "differs from a fresh object there" % what, sig="%s count object remembers its first cube" % kind)
        if not same(back, alone[i]):
            raise Violation("%s: a count object used on a larger cube and then again on the first one gives a "
                            "different result" % what, sig="%s count object remembers another cube" % kind)
    after = {k: snapshot(v) for k, v in args.items()}
    for k in args:
        if k == "fact" and edited is not None:
            continue  # edited on purpose by the check itself
        if before[k] != after[k]:
            raise Violation("%s modified its argument %r (aggregates %s)" % (
                what, k, [f["agg"] for f in funcs]), sig="%s modified argument %s" % (kind, k.split("_")[0]))
    rec.note("kind=" + kind, "nfuncs=%d" % len(L))
    if case.get("repeat") is not None:
        rec.note("same object twice in the list")
    for f in funcs:
        rec.note("agg=" + f["agg"])
    junk = fspec["form"] == "tuple" and not all(fspec["valid"])
    wj = case["weights"] is not None and case["weights"]["form"] == "tuple" and not all(case["weights"]["valid"])
    if (junk or wj or shared) and len({f["agg"] for f in funcs}) >= 2:
        rec.nontrivial()


@st.composite
def index_cases(draw, tier):
    from ..machine import dense_strategy

    pal = draw(st.sampled_from([[0, 1, 2, 3], [0, 1, 2, 3, 4, 5], [0, 1, 2, 3, 4, 5, 6, 7], [1, 0, 2],
                                [0, 1, 255, 256], [2, 0, 70000, 1]]))
    tail = draw(st.sampled_from([(), (1,), (2,), (3,), (4,), (2, 2), (3, 2)]))
    n = draw(st.integers(0, 10))
    shape = (n,) + tuple(tail)
    case = {"shape": list(shape), "dense": draw(dense_strategy(shape, pal)),
            "common": draw(st.sampled_from(pal + [9])), "pal": pal}
    case["mask"] = draw(st.lists(st.booleans(), min_size=n, max_size=n))
    case["mapping"] = [[k, draw(st.sampled_from(pal + [9, 7]))] for k in sorted(set(pal + [case["common"]]))]
    case["precedence"] = draw(st.lists(st.sampled_from(pal + [9, 7]), unique=True, min_size=1, max_size=5))
    case["other_common"] = draw(st.sampled_from(pal + [9]))
    case["new_common"] = draw(st.one_of(st.none(), st.sampled_from(pal)))
    case["orders"] = [draw(st.one_of(st.none(), st.integers(0, e - 1),
                                     st.lists(st.integers(0, e - 1), unique=True, min_size=1, max_size=e)))
                      for e in tail]
    case["flags"] = [draw(st.booleans()) for _ in range(4)]
    return case


def check_index_methods(case, rec):
    import numpy

    from catii import ccube, iindex, xcube
    from catii.iindexes import column_stack

    from ..machine import snapshot_index

    dense = numpy.array(case["dense"], dtype=numpy.int64).reshape(case["shape"])
    ix = Q.build_index(dense, case["common"])
    other = Q.build_index(dense[::-1].copy(), case["other_common"])
    snap0, snap_other = snapshot_index(ix), snapshot_index(other)
    n = dense.shape[0]

    def unchanged(what, **args):
        if snapshot_index(ix) != snap0:
            raise Violation("%s modified its receiver" % what, sig="%s modified the index" % what.split("(")[0])
        if snapshot_index(other) != snap_other:
            raise Violation("%s modified another index passed to it" % what,
                            sig="%s modified an argument index" % what.split("(")[0])
        for name, (obj, snap) in args.items():
            if snapshot(obj) != snap:
                raise Violation("%s modified its argument %r" % (what, name),
                                sig="%s modified argument %s" % (what.split("(")[0], name))

    def arg(obj):
        return (obj, snapshot(obj))

    f0, f1, f2, f3 = case["flags"]
    with warnings.catch_warnings():
        warnings.simplefilter("ignore")
        if ix.ndim <= 2:
            mapping = {k: v for k, v in case["mapping"]}
            if f3:
                mapping.pop(ix.common, None)  # the common value may be absent from a to_array mapping
            a_mapping = arg(mapping)
            with libcall("to_array"):
                ix.to_array()
                ix.to_array(dtype=numpy.int64)
                ix.to_array(mapping=mapping)
            unchanged("to_array(mapping)", mapping=a_mapping)
            mask = numpy.array(case["mask"], dtype=bool)
            a_mask = arg(mask)
            with libcall("filtered"):
                ix.filtered(mask, int(mask.sum()))
            unchanged("filtered(mask)", mask=a_mask)
            m2 = dict(mapping)
            a_m2 = arg(m2)
            with libcall("reindexed"):
                ix.reindexed(m2, copy=f0, shift=f1, assume_unique=f2)
                ix.reindexed()
            unchanged("reindexed(mapping)", mapping=a_m2)
            with libcall("common_rowids / get / items / to_dict"):
                cols = [()] if ix.ndim == 1 else [(c,) for c in range(ix.shape[1])]
                for col in cols:
                    ix.common_rowids(*col)
                    ix.get((ix.common,) + col, force=True)
                list(ix.items(force=True))
                ix.to_dict(force=True)
            unchanged("get/items/to_dict(force=True)")
            lst = [ix, other] if f3 else [other, ix, ix]
            a_lst = list(lst)
            with libcall("column_stack"):
                column_stack(lst, new_common=case["new_common"], copy=f0)
            if lst != a_lst:
                raise Violation("column_stack modified the list passed to it", sig="column_stack modified its list")
            unchanged("column_stack")
            vals = dense.copy()
            counts = {int(v): int(c) for v, c in zip(*numpy.unique(vals, return_counts=True))}
            fm = {k: v for k, v in case["mapping"]}
            for v in counts:
                fm.setdefault(v, v)
            a_vals, a_counts, a_fm = arg(vals), arg(counts), arg(fm)
            if vals.size:
                kw = {"counts": counts}
                if f0:
                    kw["mapping"] = fm
                if f1:
                    kw["common"] = case["common"]
                with libcall("from_array"):
                    iindex.from_array(vals, **kw)
                    iindex.from_array(vals, **kw)
                unchanged("from_array(values, counts%s%s)" % (", mapping" if f0 else "", ", common" if f1 else ""),
                          values=a_vals, counts=a_counts, mapping=a_fm)
        if ix.ndim == 2 and ix.shape[1] >= 1:
            prec = list(case["precedence"])
            cm = {k: v for k, v in case["mapping"]}
            a_prec, a_cm = arg(prec), arg(cm)
            with libcall("collapsed"):
                ix.collapsed(prec)
                ix.collapsed(prec, mapping=cm)
            unchanged("collapsed(precedence, mapping)", precedence=a_prec, mapping=a_cm)
        if ix.ndim >= 2:
            orders = [o if not isinstance(o, list) else list(o) for o in case["orders"]]
            a_orders = arg(orders)
            with libcall("sliced"):
                ix.sliced(*orders)
            unchanged("sliced(orders)", orders=a_orders)
        with libcall("copy / slices1d"):
            ix.copy()
            list(ix.slices1d())
        unchanged("copy / slices1d")
        if all(0 <= v <= 300 for v in case["pal"] + [case["common"], case["other_common"]]):
            with libcall("ccube construction / walk / product / count"):
                cube = ccube([ix, other])
                cube.walk(lambda c, r: None)
                list(cube.product())
                cube.count()
            unchanged("ccube([...]).walk/product/count")
            arrs = [dense.copy(), dense[::-1].copy()]
            a_arrs = arg(arrs)
            if dense.size:
                with libcall("xcube construction / product / count"):
                    xc = xcube(arrs)
                    list(xc.product)
                    xc.count()
                if snapshot(arrs) != a_arrs[1]:
                    raise Violation("xcube modified the dimension arrays passed to it",
                                    sig="xcube modified its dimension arrays")
    rec.note("ndim=%d" % ix.ndim)
    if len(ix) >= 2:
        rec.nontrivial()


SUBS = [
    Sub("aggs", check, strategy=cases, examples={"quick": 3000, "thorough": 150000}),
    Sub("index_methods", check_index_methods, strategy=index_cases,
        examples={"quick": 3000, "thorough": 100000}),
]
