"""C05 - results are independent of which category is stored as common (DESIGN.md section 3, C05)."""
from hypothesis import strategies as st

from .. import cubes as Q
from ..core import Sub, Violation, libcall
from . import c03

PROPERTY = "C05"
LEVEL = "exploration"
RULE = (
    "A cube + aggregate call from the C03 strategy (index cube only, up to 3 dims, extents <= 6), then "
    "EXHAUSTIVELY for every dimension d and every v in 0..extent_d (the last one lies outside the data): three "
    "re-encodings of d - built directly with common v by the independent constructor, a library copy() with "
    "shift_common(v), and that copy re-normalised with shift_common(). With an explicit shape covering v the whole "
    "output must be unchanged (missing cells exactly, values to rtol 1e-12 dyadic / 1e-9 x total rough); with an "
    "inferred shape the common sub-block must be unchanged and the rest all-missing. Pure metamorphic relation, no "
    "reference model. Non-trivial = the shifted dimension has >= 2 populated categories and the new common is "
    "populated (a different cell is now reconstructed). Evaluations = re-encoded cube evaluations; distinct by "
    "(case, d, v, variant)."
)
ASSUMPTIONS = ["the explicit shape is enlarged to cover the new common value (precondition of the cube)"]


@st.composite
def cases(draw, tier):
    if draw(st.integers(0, 7)) == 0:
        # hundreds / thousands of rows, random or sorted, a quarter or only 0.5 % of them outside the favourite category
        spec = draw(Q.large_specs(c03.AGGS, many_ok=False, min_nd=1, max_k=3))
        spec["N"] = min(spec["N"], 2500)
        spec["ignore"] = draw(st.booleans())
        rmas = [r for r in Q.RMAS if not (r == "plain" and spec["agg"] == "valid_count" and not spec["ignore"])]
        spec["rma"] = draw(st.sampled_from(rmas))
        spec["shape_mode"] = draw(st.sampled_from(["explicit", "explicit", "inferred"]))
        return spec
    spec = draw(c03.cases(tier, max_nd=3, big=False))
    if not spec["dims"]:
        spec = draw(c03.cases(tier, max_nd=3, big=False))
    spec["shape_mode"] = draw(st.sampled_from(["explicit", "explicit", "inferred"]))
    return spec


def evaluate(case, idxs, shape_arg, dense):
    from catii import ccube

    N = case["N"]
    farg, warg, _, _, _, tol = c03.expected(dict(case, shape_mode="exact"), dense, Q.exact_shape(case, dense))
    cube = ccube(idxs, shape_arg)
    res = Q.call_agg(cube, case["agg"], farg, warg, case["ignore"], case["rma"])
    gv, gm = Q.normalise(res, case["rma"], "ccube." + case["agg"])
    return gv, gm, tol


def check(case, rec):
    import numpy

    if case.get("recipe"):
        rec.note("large recipe case (rows %s, density %s)" % (case.get("rows"), case.get("density")))
    case = Q.expand(case)
    dense = Q.dense_dims(case)
    nd = len(dense)
    if nd == 0:
        return
    ns = len(Q.scaffold_shape(case))
    commons = [d["common"] for d in case["dims"]]
    ext = [max(int(a.max()) if a.size else -1, c) + 1 for a, c in zip(dense, commons)]
    explicit = case["shape_mode"] != "inferred"
    shape_arg = tuple(e + 1 for e in ext) if explicit else None
    with libcall("baseline ccube.%s" % case["agg"]):
        base_idx = [Q.build_index(a, c) for a, c in zip(dense, commons)]
        bv, bm, tol = evaluate(case, base_idx, shape_arg, dense)
    for d in range(nd):
        populated = set(dense[d].reshape(-1).tolist())
        for v in range(ext[d] + 1):
            variants = []
            with libcall("build / copy / shift_common(%d)" % v):
                direct = Q.build_index(dense[d], v)
                shifted = base_idx[d].copy()
                shifted.shift_common(v)
                renorm = shifted.copy()
                renorm.shift_common()
            variants = [("built with common %d" % v, direct), ("shift_common(%d)" % v, shifted),
                        ("shift_common(%d) then shift_common()" % v, renorm)]
            for label, idx in variants:
                idxs = list(base_idx)
                idxs[d] = idx
                what = "ccube.%s after re-encoding dim %d: %s" % (case["agg"], d, label)
                with libcall(what):
                    gv, gm, _ = evaluate(case, idxs, shape_arg, dense)
                rec.evaluations += 1
                if explicit:
                    if gv.shape != bv.shape:
                        raise Violation("%s: shape %s != %s" % (what, gv.shape, bv.shape), sig="C05 shape")
                    a_v, a_m, b_v, b_m = gv, gm, bv, bm
                else:
                    common_shape = tuple(min(x, y) for x, y in zip(gv.shape, bv.shape))
                    sl = tuple(slice(0, x) for x in common_shape)
                    a_v, b_v = gv[sl], bv[sl]
                    a_m = None if gm is None else gm[sl]
                    b_m = None if bm is None else bm[sl]
                    for full_v, full_m in ((gv, gm), (bv, bm)):
                        if full_m is not None:
                            rest = numpy.ones(full_m.shape, dtype=bool)
                            rest[sl] = False
                            if not full_m[rest].all():
                                raise Violation("%s: cells outside the data are not all missing" % what,
                                                sig="C05 added slice not missing")
                if a_m is not None and not numpy.array_equal(a_m, b_m):
                    idx_ = tuple(int(x) for x in numpy.argwhere(a_m != b_m)[0])
                    raise Violation("%s: cell %s became %s" % (what, idx_, "missing" if a_m[idx_] else "valid"),
                                    sig="C05 missing cells changed (%s)" % case["agg"])
                sel = numpy.ones(a_v.shape, dtype=bool) if a_m is None else ~a_m
                if not numpy.all(numpy.abs(a_v[sel] - b_v[sel]) <= tol + 1e-12 * numpy.abs(b_v[sel])):
                    raise Violation("%s: cell values changed" % what, sig="C05 values changed (%s)" % case["agg"])
                if len(populated) >= 2 and v in populated and v != commons[d]:
                    rec.nontrivial(key=[case, d, v, label])
    # the same re-encoding done IN PLACE on the dimensions of a cube object that is kept and evaluated again
    if explicit:
        from catii import ccube

        held_idx = [ix.copy() for ix in base_idx]
        held = ccube(held_idx, shape_arg)

        def held_eval():
            farg, warg, _, _, _, _ = c03.expected(dict(case, shape_mode="exact"), dense, Q.exact_shape(case, dense))
            res = Q.call_agg(held, case["agg"], farg, warg, case["ignore"], case["rma"])
            return Q.normalise(res, case["rma"], "ccube." + case["agg"])

        for d in range(nd):
            if held_idx[d].ndim > 2:
                continue
            for v in sorted({0, ext[d] - 1, ext[d]} & set(range(ext[d] + 1))):
                what = "ccube.%s on a kept cube after dims[%d].shift_common(%d) in place" % (case["agg"], d, v)
                with libcall(what):
                    held_idx[d].shift_common(v)
                    gv, gm = held_eval()
                rec.evaluations += 1
                if gv.shape != bv.shape or (gm is not None and not numpy.array_equal(gm, bm)):
                    raise Violation("%s: missing cells / shape changed" % what,
                                    sig="C05 kept cube, missing cells changed (%s)" % case["agg"])
                sel = numpy.ones(gv.shape, dtype=bool) if gm is None else ~gm
                if not numpy.all(numpy.abs(gv[sel] - bv[sel]) <= tol + 1e-12 * numpy.abs(bv[sel])):
                    raise Violation("%s: cell values changed" % what, sig="C05 kept cube, values changed (%s)" % case["agg"])
            with libcall("shift_common() in place"):
                held_idx[d].shift_common()
                gv, gm = held_eval()
            if gm is not None and not numpy.array_equal(gm, bm):
                raise Violation("ccube.%s on a kept cube after re-normalising dims[%d] in place: missing cells changed"
                                % (case["agg"], d), sig="C05 kept cube, missing cells changed (%s)" % case["agg"])
    rec.note("agg=" + case["agg"], "nd=%d" % nd, "shape=" + case["shape_mode"])


SUBS = [Sub("recode", check, strategy=cases, examples={"quick": 2400, "thorough": 60000})]
