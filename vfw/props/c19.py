"""C19 - chosen integer dtypes are wide enough and no wider (DESIGN.md section 3, C19)."""
import types

from hypothesis import strategies as st

from ..core import Sub, Violation, libcall

PROPERTY = "C19"
LEVEL = "exploration"
RULE = (
    "grid: every (max, min) pair of G x G inside the domain, G = {0} u {+-2^k, +-2^k+-1 : k=0..64} "
    "u {c, c+-1 : c an integer constant of the current fit_dtype code object}, plus the one-argument "
    "form for every negative g; every pair is passed as Python ints and as NumPy scalars (narrowest unsigned / signed "
    "dtype holding each value, and 64-bit), the forms the library's own call sites produce; interior: Hypothesis integers over the same domain. Oracle: numpy.iinfo "
    "only. Non-trivial = mixed-sign pair (min < 0 < max); distinct by (max, min). dense_output: the same oracle applied "
    "to the dtype iindex.to_array() selects by default for generated value sets. indx_word: the coordinate word "
    "size byte of files written by IndxIO.save for generated entries (arity 1..4, widest value in any key and "
    "position, or in the common value) must be the narrowest of 1/2/4/8 (the full byte layout is C11's). "
    "collapsed_output: 2-D indexes with 1..3 / 254..257 / 65535..65537 columns and values at the dtype edges "
    "(127/128, 255/256, 32767/32768, 65535/65536, 2^31 and the negative counterparts), collapsed with drawn precedence "
    "lists; the result must follow the documented rule (the dtypes chosen inside are not observable, wrap-around is)."
)
ASSUMPTIONS = [
    "domain: -2^63 <= min <= 0, min <= max, max <= 2^63-1 when min < 0 else max < 2^64 "
    "(plus the one-argument form with a negative maximum, which the repository tests use)",
    "numpy.iinfo describes the value range of NumPy integer dtypes",
]

SIGNED = ["int8", "int16", "int32", "int64"]
UNSIGNED = ["uint8", "uint16", "uint32", "uint64"]


def expected_dtype(mx, mn):
    import numpy

    # one-argument form: a negative maximum is also the minimum to store
    lo = min(mx, 0) if mn is None else mn
    names = SIGNED if lo < 0 else UNSIGNED
    for n in names:
        ii = numpy.iinfo(n)
        if ii.min <= lo and mx <= ii.max:
            return numpy.dtype(n)
    return None


def check(case, rec):
    import numpy

    from catii.iindexes import fit_dtype

    mx, mn = case["max"], case["min"]
    form = case.get("form", "py")
    amx, amn = as_form(mx, form), (None if mn is None else as_form(mn, form))
    with libcall("fit_dtype(%r, %r)" % (amx, amn)):
        got = fit_dtype(amx) if mn is None else fit_dtype(amx, amn)
    want = expected_dtype(mx, mn)
    if want is None:
        return
    if not isinstance(got, numpy.dtype):
        raise Violation("fit_dtype(%r, %r) returned %r, not a numpy.dtype" % (mx, mn, got),
                        sig="fit_dtype result is not a dtype")
    if got != want:
        ii = numpy.iinfo(got) if got.kind in "iu" else None
        lo = mn if mn is not None else min(mx, 0)
        if ii is None or ii.min > lo or ii.max < mx:
            kind = "too narrow / wrong kind"
        else:
            kind = "wider than needed or wrong signedness"
        raise Violation(
            "fit_dtype(max=%r, min=%r) chose %s, narrowest sufficient is %s (%s)"
            % (mx, mn, got, want, kind),
            sig="fit_dtype " + kind,
        )
    rec.note("kind=" + want.name, "args=" + form)
    eff_min = mn if mn is not None else min(mx, 0)
    if eff_min < 0 < mx:
        rec.nontrivial({"max": mx, "min": mn})


def as_form(v, form):
    """The argument as the library's own call sites hand it over: a Python int, or a NumPy scalar read out of an
    array - of the narrowest dtype holding it (so it sits at or near the extreme of its own type) or 64 bits wide."""
    import numpy

    if form == "py":
        return v
    names = (SIGNED if v < 0 else UNSIGNED) if form == "np_narrow" else (["int64"] if v < 2 ** 63 else ["uint64"])
    if form == "np_signed":
        names = SIGNED + ["uint64"]
    for n in names:
        ii = numpy.iinfo(n)
        if ii.min <= v <= ii.max:
            return numpy.dtype(n).type(v)
    return v


def harvest_constants():
    from catii.iindexes import fit_dtype

    out = set()

    def walk(code):
        for c in code.co_consts:
            if isinstance(c, bool):
                continue
            if isinstance(c, int):
                out.add(c)
            elif isinstance(c, float) and c == int(c) and abs(c) < 2 ** 70:
                out.add(int(c))
            elif isinstance(c, types.CodeType):
                walk(c)
            elif isinstance(c, (tuple, frozenset)):
                for x in c:
                    if isinstance(x, int) and not isinstance(x, bool):
                        out.add(x)

    walk(fit_dtype.__code__)
    return out


def grid_values():
    g = {0}
    for k in range(65):
        for s in (1, -1):
            for d in (-1, 0, 1):
                g.add(s * 2 ** k + d)
    for c in harvest_constants():
        for d in (-1, 0, 1):
            g.add(c + d)
            g.add(-c + d)
    return sorted(g)


def in_domain(mx, mn):
    if mn is None:
        return -(2 ** 63) <= mx < 2 ** 64
    if not (-(2 ** 63) <= mn <= 0 and mn <= mx):
        return False
    if mn < 0:
        return mx <= 2 ** 63 - 1
    return mx < 2 ** 64


def enum_grid(tier, shard, nshards):
    g = grid_values()
    i = 0
    for mx in g:
        if mx < 0 and in_domain(mx, None):
            if i % nshards == shard:
                yield {"max": mx, "min": None}
            i += 1
        for mn in g:
            if in_domain(mx, mn):
                if i % nshards == shard:
                    yield {"max": mx, "min": mn}
                    for form in ("np_narrow", "np_signed", "np64"):
                        yield {"max": mx, "min": mn, "form": form}
                i += 1


def interior(tier):
    def build(mn_raw, mx_raw, form):
        if form == 0:
            mn = 0
            mx = mx_raw % (2 ** 64)
        elif form == 1:
            mn = -(abs(mn_raw) % (2 ** 63 + 1))
            mx = mx_raw % (2 ** 63)
            if mn == 0:
                mn = -1
        elif form == 2:  # both negative
            a = -(abs(mn_raw) % (2 ** 63 + 1))
            b = -(abs(mx_raw) % (2 ** 63 + 1))
            mn, mx = min(a, b), max(a, b)
            if mn == 0:
                mn = -1
        else:
            mn = None
            mx = -(abs(mx_raw) % (2 ** 63 + 1))
        return {"max": mx, "min": mn}

    big = st.one_of(
        st.integers(-(2 ** 64), 2 ** 64),
        st.integers(0, 64).flatmap(lambda k: st.integers(-300, 300).map(lambda d: 2 ** k + d)),
        st.integers(-70000, 70000),
    )
    return st.builds(build, big, big, st.integers(0, 3))


def dense_cases(tier):
    big = st.one_of(
        st.integers(-(2 ** 63), 2 ** 63 - 1),
        st.integers(0, 63).flatmap(lambda k: st.integers(-3, 3).map(lambda d: 2 ** k + d)),
        st.integers(0, 63).flatmap(lambda k: st.integers(-3, 3).map(lambda d: -(2 ** k) + d)),
        st.integers(-300, 300),
    )
    return st.builds(lambda vals, common, two_d: {"values": vals, "common": common, "two_d": two_d},
                     st.lists(big, min_size=1, max_size=4), big, st.booleans())


def check_dense(case, rec):
    """The dtype to_array() picks by default holds every value and is the narrowest of its signedness."""
    import numpy

    from .. import cubes as Q

    vals = [max(-(2 ** 63), min(2 ** 63 - 1, v)) for v in case["values"]]
    common = max(-(2 ** 63), min(2 ** 63 - 1, case["common"]))
    dense = numpy.array(vals, dtype=numpy.int64)
    if case["two_d"]:
        dense = dense.reshape(-1, 1)
    ix = Q.build_index(dense, common)
    with libcall("to_array()"):
        out = ix.to_array()
    lo, hi = min(vals + [common]), max(vals + [common])
    want = expected_dtype(hi, min(lo, 0))
    if out.dtype != want:
        raise Violation("to_array() of values in [%d, %d] chose dtype %s, narrowest sufficient is %s"
                        % (lo, hi, out.dtype, want), sig="to_array default dtype")
    if out.astype(object).tolist() != dense.astype(object).tolist():
        raise Violation("to_array() wrapped values around in dtype %s" % out.dtype, sig="to_array wrap-around")
    rec.note("dense kind=" + want.name)
    if lo < 0 < hi:
        rec.nontrivial()


def indx_cases(tier):
    from .. import indxgen as G

    return G.indx_cases(12, 4)


def check_indx_word(case, rec):
    """The coordinate word IndxIO.save writes is the narrowest unsigned word holding every coordinate and the
    common value - wherever the largest value sits (any key, any position in the key)."""
    import struct

    from .. import indxgen as G
    from .. import indxref as R

    with libcall("IndxIO.save"):
        data, _ = G.save_to_bytes(case)
    (iw,) = struct.unpack_from("<B", data, 16 + 1 + 4)
    want = R.index_word_for(G.case_list(case), case["common"])
    if iw != want:
        raise Violation("INDX coordinate word is %d bytes, the narrowest word holding every coordinate and the "
                        "common value is %d bytes" % (iw, want), sig="INDX coordinate word size")
    ents = case["entries"]
    rec.note("indx word=%d" % iw)
    if len(ents) >= 2 and case["arity"] >= 2:
        last = max(tuple(c) for c, _ in ents)
        biggest = max(max(c) for c, _ in ents)
        if biggest not in last and biggest > case["common"]:
            rec.nontrivial()


@st.composite
def collapsed_cases(draw, tier):
    """Collapsing picks two dtypes by itself: one for the output values (from the precedence list) and one for a
    per-row counter that must hold the NUMBER OF COLUMNS. Both are exercised at the dtype boundaries."""
    C = draw(st.sampled_from([1, 2, 3, 254, 255, 256, 257, 65535, 65536, 65537]))
    N = draw(st.integers(1, 4))
    edge = st.sampled_from([0, 1, 2, 127, 128, 255, 256, 32767, 32768, 65535, 65536, 2 ** 31 - 1, 2 ** 31,
                            -1, -128, -129, -32768, -32769, -(2 ** 31), -(2 ** 31) - 1])
    values = draw(st.lists(edge, min_size=2, max_size=5, unique=True))
    common = draw(st.sampled_from(values))
    others = [v for v in values if v != common]
    cols = sorted(set(draw(st.lists(st.one_of(st.integers(0, min(C - 1, 3)), st.integers(max(0, C - 3), C - 1),
                                              st.integers(0, C - 1)), max_size=6))))
    cells = []
    for c in cols:
        for r in range(N):
            if draw(st.booleans()):
                cells.append([r, c, draw(st.sampled_from(others))])
    fill_rows = draw(st.lists(st.integers(0, N - 1), unique=True, max_size=2))  # rows without any common cell
    prec = draw(st.permutations(values))
    prec = list(prec[: draw(st.integers(1, len(prec)))])
    return {"C": C, "N": N, "common": common, "cells": cells, "full_rows": fill_rows,
            "full_value": draw(st.sampled_from(others)), "precedence": prec}


def check_collapsed(case, rec):
    """collapsed() output equals the documented rule whatever the column count and value magnitudes."""
    import numpy

    from catii import iindex

    from .. import cubes as Q

    C, N, common = case["C"], case["N"], case["common"]
    dense = numpy.full((N, C), common, dtype=numpy.int64)
    for r in case["full_rows"]:
        dense[r, :] = case["full_value"]
    for r, c, v in case["cells"]:
        dense[r, c] = v
    ix = Q.build_index(dense, common)
    prec = list(case["precedence"])
    with libcall("collapsed(%d columns, precedence %s)" % (C, prec)):
        out = ix.collapsed(prec)
    got = Q.dense_of(out)
    want = []
    for row in dense:
        present = set(row.tolist())
        want.append(next((p for p in prec if p in present), prec[-1]))
    if got.shape != (N,) or got.tolist() != want:
        raise Violation("collapsed(%s) of %d rows x %d columns (common %d) gives %s, the documented rule gives %s" % (
            prec, N, C, common, got.tolist(), want), sig="collapsed wrong at a dtype boundary")
    rec.note("columns=%d" % C, "ends in common" if prec[-1] == common else "does not end in common")
    if prec[-1] != common and C >= 255:
        rec.nontrivial()


SUBS = [
    Sub("collapsed_output", check_collapsed, strategy=collapsed_cases, examples={"quick": 1600, "thorough": 60000}),
    Sub("indx_word", check_indx_word, strategy=indx_cases, examples={"quick": 3000, "thorough": 100000},
        shards={"quick": 8, "thorough": 16}),
    Sub("dense_output", check_dense, strategy=dense_cases, examples={"quick": 6000, "thorough": 300000},
        shards={"quick": 4, "thorough": 16}),
    Sub("grid", check, enumerate=enum_grid, exhaustive=True,
        shards={"quick": 4, "thorough": 8}),
    Sub("interior", check, strategy=interior,
        examples={"quick": 20000, "thorough": 2000000},
        shards={"quick": 8, "thorough": 16}),
]
