"""C10 - INDX save then load is the identity (DESIGN.md section 3, C10)."""
import os

from .. import fuzzrun
from .. import indxgen as G
from ..core import VERIF, Sub, Violation, libcall

PROPERTY = "C10"
LEVEL = "exploration"
RULE = (
    "Hypothesis entries dicts: uniform arity 1..4, 0..40 entries, coordinates and common value drawn "
    "independently from the four index-word magnitude classes (<=255, <=65535, <2^32, <2^63, with the exact "
    "boundaries), strictly increasing uint32 row-id arrays of length 0..50 reaching 2^32-1; each is saved "
    "with IndxIO.save to a real file and loaded back. Oracle: same common (type int), same key set (tuples of "
    "int), equal uint32 arrays, reported row-id dtype uint32, and the rebuilt iindex equals the saved one and "
    "validates iff the saved one does. Non-trivial = at least 2 entries and (common's width class differs from "
    "the coordinates' class, or an empty row-id array, or arity >= 3); distinct by file content. machine_indexes: the "
    "C06 state machine; after every step every live non-negative index (reached by appends, updates, filters, "
    "slices, re-indexing, collapsing, stacking, set updates) is saved and loaded back with the same comparison; "
    "non-trivial = a history that round-trips an index produced by an operation (not only the initial ones). "
    "fuzz: an Atheris campaign over structured entries (2 000 executions per shard quick, 120 000 thorough)."
)
ASSUMPTIONS = [
    "coordinates and common are unsigned and < 2^63 (class docstring and loader comment)",
    "files are written to and read from a real file descriptor (load uses mmap)",
]


def compare_loaded(case, loaded, what="load(save(x))"):
    """Compare IndxIO.load output with the case data. Raises Violation."""
    import numpy

    try:
        entries, common, rdt = loaded
    except (TypeError, ValueError):
        raise Violation("%s returned %r, not (entries, common, rowid dtype)" % (what, type(loaded)),
                        sig="load result shape")
    if type(common) is not int or common != case["common"]:
        raise Violation("%s: common is %r (%s), saved %r" % (what, common, type(common).__name__,
                                                             case["common"]), sig="load common differs")
    if numpy.dtype(rdt) != numpy.dtype(numpy.uint32) and case.get("rw", 4) == 4:
        raise Violation("%s: reported row-id dtype %r" % (what, rdt), sig="load rowid dtype")
    want = {tuple(c): r for c, r in case["entries"]}
    if set(entries.keys()) != set(want.keys()):
        raise Violation("%s: key set differs: extra %s missing %s" % (
            what, sorted(set(entries) - set(want))[:3], sorted(set(want) - set(entries))[:3]),
            sig="load keys differ")
    for k, arr in entries.items():
        if type(k) is not tuple or any(type(c) is not int for c in k):
            raise Violation("%s: key %r is not a tuple of plain int" % (what, k), sig="load key types")
        if not isinstance(arr, numpy.ndarray) or arr.dtype != numpy.uint32:
            raise Violation("%s: entry %r is %s, not a uint32 array" % (
                what, k, getattr(arr, "dtype", type(arr))), sig="load array dtype")
        if arr.tolist() != want[k]:
            raise Violation("%s: entry %r holds %s, saved %s" % (what, k, arr.tolist()[:8], want[k][:8]),
                            sig="load rowids differ")


def index_shape(case):
    n = 0
    ext = [0] * (case["arity"] - 1)
    for c, r in case["entries"]:
        if r:
            n = max(n, r[-1] + 1)
        for i, x in enumerate(c[1:]):
            ext[i] = max(ext[i], x + 1)
    return (n,) + tuple(ext)


def check(case, rec):
    import numpy

    from catii import iindex
    from catii.indxio import IndxIO

    path = os.path.join(G.scratch_dir(), "c10.indx")
    with libcall("IndxIO.save"):
        with open(path, "wb") as f:
            IndxIO.save(f, G.case_entries(case), case["common"], numpy.dtype(numpy.uint32))
    with open(path, "rb") as f:
        with libcall("IndxIO.load"):
            loaded = IndxIO.load(f)
        compare_loaded(case, loaded)
        entries, common, _ = loaded
        # save -> load -> save: what was loaded (read-only arrays backed by the file mapping) is saved again to another
        # file and must give the same bytes
        path2 = os.path.join(G.scratch_dir(), "c10b.indx")
        with libcall("IndxIO.save(the loaded parts)"):
            with open(path2, "wb") as f2:
                IndxIO.save(f2, dict(entries), common, numpy.dtype(numpy.uint32))
        with open(path2, "rb") as f2, open(path, "rb") as f1:
            if f2.read() != f1.read():
                raise Violation("save(load(save(x))) differs from save(x) byte-wise", sig="save-load-save not stable")
        # ... and once more with the loaded arrays handed over in ANOTHER key order (a recoded / re-sorted dict whose
        # values are still the views of the first file's mapping)
        if len(entries) >= 2:
            shuffled = dict(reversed(list(entries.items())))
            with libcall("IndxIO.save(the loaded parts, keys in another order)"):
                with open(path2, "wb") as f2:
                    IndxIO.save(f2, shuffled, common, numpy.dtype(numpy.uint32))
            with open(path2, "rb") as f2:
                with libcall("IndxIO.load(re-saved file)"):
                    again = IndxIO.load(f2)
                compare_loaded(case, again, "load(save(reordered load(save(x))))")
                del again
        shape = index_shape(case)
        with libcall("iindex(loaded parts)"):
            rebuilt = iindex({k: numpy.array(v) for k, v in entries.items()}, common, shape)
            original = iindex(G.case_entries(case), case["common"], shape)
            eq = rebuilt == original
        if eq is not True and not (isinstance(eq, numpy.bool_) and bool(eq)):
            raise Violation("index rebuilt from the loaded parts != the saved index",
                            sig="rebuilt index differs")

        def valid(ix):
            try:
                ix.validate()
                return True
            except ValueError:
                return False

        if valid(original) != valid(rebuilt):
            raise Violation("validate() differs between saved and reloaded index", sig="validate differs")
        del loaded, entries, rebuilt
    ents = case["entries"]
    rec.note("arity=%d" % case["arity"], "entries=%s" % ("0" if not ents else "1" if len(ents) == 1 else "2+"),
             "common_class=%d" % G.width_class(case["common"]))
    if ents:
        rec.note("coord_class=%d" % G.width_class(max(max(c) for c, _ in ents)))
    if G.is_nontrivial(case):
        rec.nontrivial()


def fuzz_runner(sub, tier, seed, shard, nshards, rec):
    os.environ["VFW_FUZZ_MODE"] = "c10"
    fuzzrun.run_campaign(sub, tier, seed, shard, nshards, rec,
                         os.path.join(VERIF, "vfw", "fuzz", "indx_fuzz.py"),
                         {"quick": 2000, "thorough": 120000}, asan=False)


MEX = {"quick": 1200, "thorough": 60000}
MSTEPS = {"quick": 20, "thorough": 30}


def machine_runner(sub, tier, seed, shard, nshards, rec):
    from .. import machine as M

    M.run_machine(sub, tier, seed, shard, nshards, rec, "C10", MEX, MSTEPS)


def machine_replay(case, rec):
    from .. import machine as M

    M.replay(case, rec)


SUBS = [
    Sub("machine_indexes", machine_replay, runner=machine_runner, examples=MEX, weight=4),
    Sub("fuzz", check, runner=fuzz_runner, shards={"quick": 2, "thorough": 8}, weight=9),
    Sub("roundtrip", check, strategy=lambda tier: G.indx_cases(40 if tier == "quick" else 120, 50, very_long=True),
        examples={"quick": 5000, "thorough": 200000}),
]
