"""C11 - INDX files are byte-for-byte the documented layout (DESIGN.md section 3, C11)."""
import os

from hypothesis import strategies as st

from .. import fuzzrun

from .. import indxgen as G
from .. import indxref as R
from ..core import VERIF, Sub, Violation, libcall
from .c10 import compare_loaded

PROPERTY = "C11"
LEVEL = "exploration"
RULE = (
    "writer: the C10 file strategy; the bytes written by IndxIO.save must decode with an independent decoder "
    "(written from the format docstring, struct only) to the saved data, and the independent encoder applied to "
    "the decoded entries in the order found must reproduce the file byte for byte (pins magic, version, size "
    "convention, field order, endianness, narrowest index word, row-id word). reader: the same data encoded by "
    "the independent encoder with every legal (index word, row-id word) pair, including words wider than needed "
    "and 1/2/8-byte row-id words, must load to exactly that data. reader_totals: reference files in 1-, 2-, 4- and "
    "8-byte row-id words whose row ids TOTAL 200..700 / 65535..140000 over 2, 3 or 7 entries (the totals cross what "
    "the narrow word itself can count). size: entries whose values are duck-typed "
    "arrays of 2^29..2^32-1 elements (tofile = seek) so that totals cross 2^30 and 2^32 without materialising "
    "data; the size field must equal the bytes written. Non-trivial = at least 2 entries with an index word != 1 "
    "or the common value being the widest value; distinct by content (+ word sizes)."
)
ASSUMPTIONS = [
    "the class docstring of IndxIO is the format specification",
    "entry order in the file is free (the format does not prescribe one): the re-encoding uses the order found",
    "size probes use duck-typed arrays (len, dtype, tofile); a writer that inspects array contents for huge "
    "entries could not be probed this way",
]


def nontrivial(case):
    ents = case["entries"]
    if len(ents) < 2:
        return False
    cmax = max(max(c) for c, _ in ents)
    return R.narrowest(max(cmax, case["common"])) != 1 or case["common"] >= cmax


def check_writer(case, rec):
    with libcall("IndxIO.save"):
        data, _ = G.save_to_bytes(case)
    try:
        dec = R.ref_decode(data)
    except R.RefDecodeError as e:
        raise Violation("file written by save() is not the documented layout: %s" % e,
                        sig="written file does not decode")
    want = {tuple(c): list(r) for c, r in case["entries"]}
    got = {c: r for c, r in dec["entries"]}
    if len(got) != len(dec["entries"]):
        raise Violation("written file lists a coordinate tuple twice", sig="duplicate entries written")
    if dec["common"] != case["common"] or got != want:
        raise Violation("independent decoder recovers different data: common %r vs %r, %d vs %d entries"
                        % (dec["common"], case["common"], len(got), len(want)),
                        sig="written file decodes to other data")
    if dec["size"] != len(data) - 16:
        raise Violation("size field %d, payload %d" % (dec["size"], len(data) - 16), sig="size field wrong")
    again = R.ref_encode(dec["entries"], dec["common"], iw=None, rw=4,
                         dims=dec["dims"] if not dec["entries"] else None)
    if again != data:
        i = next((k for k in range(min(len(again), len(data))) if again[k] != data[k]), -1)
        raise Violation(
            "file differs from the documented layout at byte %d (file %s.., reference %s..; index word %d, "
            "narrowest is %d; row-id word %d)" % (
                i, data[i:i + 8].hex(), again[i:i + 8].hex(), dec["iw"],
                R.index_word_for(dec["entries"], dec["common"]), dec["rw"]),
            sig="bytes differ from documented layout")
    rec.note("iw=%d" % dec["iw"])
    if len(case["entries"]) >= 2:
        # the writer is also handed what the library's own loader returns (views of one file mapping), with the keys in
        # another order: the new file must be the documented layout of THAT order
        import numpy

        from catii.indxio import IndxIO

        path = os.path.join(G.scratch_dir(), "c11w.indx")
        with open(path, "wb") as f:
            f.write(data)
        with open(path, "rb") as f:
            with libcall("IndxIO.load + save of the loaded parts in another key order"):
                entries, common, _ = IndxIO.load(f)
                shuffled = dict(reversed(list(entries.items())))
                path2 = os.path.join(G.scratch_dir(), "c11w2.indx")
                with open(path2, "wb") as f2:
                    IndxIO.save(f2, shuffled, common, numpy.dtype(numpy.uint32))
            with open(path2, "rb") as f2:
                data2 = f2.read()
            ref2 = R.ref_encode([(tuple(k), v.tolist()) for k, v in shuffled.items()], common, iw=None, rw=4)
            del entries, shuffled
        if data2 != ref2:
            i = next((k for k in range(min(len(ref2), len(data2))) if ref2[k] != data2[k]), -1)
            raise Violation("file written from re-ordered loaded entries differs from the documented layout at byte %d" % i,
                            sig="bytes differ from documented layout (re-saved loaded entries)")
    if nontrivial(case):
        rec.nontrivial()


def check_reader(case, rec):
    from catii.indxio import IndxIO

    iw, rw = case["iw"], case["rw"]
    data = R.ref_encode(G.case_list(case), case["common"], iw=iw, rw=rw)
    path = os.path.join(G.scratch_dir(), "c11r.indx")
    with open(path, "wb") as f:
        f.write(data)
    with open(path, "rb") as f:
        with libcall("IndxIO.load(reference file iw=%d rw=%d)" % (iw, rw)):
            loaded = IndxIO.load(f)
        compare_loaded(case, loaded, "load(reference encoding iw=%d rw=%d)" % (iw, rw))
        del loaded
    rec.note("iw=%d" % iw, "rw=%d" % rw)
    need = R.index_word_for(G.case_list(case), case["common"])
    if iw > need:
        rec.note("index word wider than needed")
    if nontrivial(case) or rw != 4 or iw > need:
        rec.nontrivial()


@st.composite
def reader_cases(draw, max_entries, max_rowids, very_long=False):
    case = dict(draw(G.indx_cases(max_entries, max_rowids, very_long=very_long)))
    rw = draw(st.sampled_from([1, 2, 4, 4, 8]))
    if rw < 4:
        lim = (1 << (8 * rw)) - 1
        ents = []
        for c, r in case["entries"]:
            r = [x for x in r if x <= lim][:lim]
            ents.append([c, r])
        case["entries"] = ents
    need = R.index_word_for(G.case_list(case), case["common"])
    case["iw"] = draw(st.sampled_from([w for w in (1, 2, 4, 8) if w >= need]))
    case["rw"] = rw
    return case


class FakeRowids(object):
    """Duck-typed uint32 'array' of n elements whose tofile() only moves the file position."""

    def __init__(self, n):
        import numpy

        self.n = n
        self.dtype = numpy.dtype(numpy.uint32)

    def __len__(self):
        return self.n

    def tofile(self, f):
        f.seek(4 * self.n, 1)


def enum_reader_totals(tier, shard, nshards):
    """Files in narrow row-id words whose row ids TOTAL more than the word can count (the loader's running
    offset must not live in the row-id dtype)."""
    plans = []
    for rw, totals in ((1, [200, 255, 256, 300, 700]), (2, [65535, 65536, 70000] + ([140000] if tier == "thorough" else [])),
                       (4, [70000]), (8, [300, 70000])):
        for total in totals:
            for k in (2, 3, 7):
                plans.append((rw, total, k))
    for i, (rw, total, k) in enumerate(plans):
        if i % nshards != shard:
            continue
        lim = min((1 << (8 * rw)) - 1, 2 ** 32 - 1)
        per = total // k
        entries = []
        for e in range(k):
            n = per + (total - per * k if e == k - 1 else 0)
            n = min(n, lim)  # the length itself must fit the row-id word
            start = (e * 3) % 5
            rows = [min(lim, start + j) for j in range(n)]
            rows = sorted(set(rows))
            entries.append([[e + 1], rows])
        yield {"common": 0, "arity": 1, "entries": entries, "iw": 1 if k < 200 else 2, "rw": rw}


SIZE_PROBES = [
    [2 ** 29], [2 ** 30 - 1], [2 ** 30], [2 ** 30 + 1], [2 ** 31], [2 ** 32 - 1],
    [2 ** 29, 2 ** 29], [2 ** 30, 2 ** 30, 2 ** 30, 2 ** 30], [2 ** 32 - 1, 2 ** 32 - 1, 5],
    [2 ** 31, 0, 2 ** 31, 1], [3, 2 ** 30 - 3],
]


def enum_size(tier, shard, nshards):
    i = 0
    for lens in SIZE_PROBES:
        for common in (0, 70000):
            if i % nshards == shard:
                yield {"lengths": lens, "common": common}
            i += 1


def check_size(case, rec):
    import struct

    import numpy

    from catii.indxio import IndxIO

    lens = case["lengths"]
    entries = {(i + 1,): FakeRowids(n) for i, n in enumerate(lens)}
    path = os.path.join(G.scratch_dir(), "c11s.indx")
    with open(path, "w+b") as f:
        with libcall("IndxIO.save(row ids totalling %d)" % sum(lens)):
            IndxIO.save(f, entries, case["common"], numpy.dtype(numpy.uint32))
        end = f.tell()
        f.seek(8)
        (size,) = struct.unpack("<Q", f.read(8))
    iw = R.narrowest(max(case["common"], len(lens)))
    want = 1 + 4 + 1 + iw + iw * len(lens) + 1 + 4 * len(lens) + 4 * sum(lens)
    if size != want or end != 16 + want:
        raise Violation("row ids totalling %d: size field %d, position after writing %d, documented payload %d"
                        % (sum(lens), size, end - 16, want), sig="size field wrong for large totals")
    rec.note("total>=2^30" if sum(lens) >= 2 ** 30 else "total<2^30")
    if sum(lens) >= 2 ** 30:
        rec.nontrivial_enum()


def fuzz_check(case, rec):
    """Replay entry for cases found by the fuzzing campaign (writer or reader direction)."""
    if "rw" in case:
        return check_reader(case, rec)
    return check_writer(case, rec)


def fuzz_seeds(corpus):
    seeds = [R.ref_encode([((1, 2), [3, 5]), ((1, 1), [1, 4])], 0), R.ref_encode([], 7),
             R.ref_encode([((70000,), [0, 1, 2])], 300, iw=8, rw=2),
             R.ref_encode([((1, 300, 5), []), ((2, 0, 0), [4294967295])], 70000, rw=8)]
    for i, s_ in enumerate(seeds):
        with open(os.path.join(corpus, "seed%d" % i), "wb") as f:
            f.write(bytes([2]) + s_)


def fuzz_runner(sub, tier, seed, shard, nshards, rec):
    os.environ["VFW_FUZZ_MODE"] = "c11"
    fuzzrun.run_campaign(sub, tier, seed, shard, nshards, rec,
                         os.path.join(VERIF, "vfw", "fuzz", "indx_fuzz.py"),
                         {"quick": 2000, "thorough": 120000}, asan=False, seed_corpus=fuzz_seeds, max_len=4096)


SUBS = [
    Sub("fuzz", fuzz_check, runner=fuzz_runner, shards={"quick": 2, "thorough": 8}, weight=9),
    Sub("writer", check_writer, strategy=lambda tier: G.indx_cases(40 if tier == "quick" else 120, 50, very_long=True),
        examples={"quick": 3000, "thorough": 100000}),
    Sub("reader", check_reader, strategy=lambda tier: reader_cases(30 if tier == "quick" else 80, 40, very_long=True),
        examples={"quick": 3000, "thorough": 100000}),
    Sub("size", check_size, enumerate=enum_size, exhaustive=True, shards={"quick": 2, "thorough": 2}),
    Sub("reader_totals", check_reader, enumerate=enum_reader_totals, exhaustive=True,
        shards={"quick": 8, "thorough": 8}),
]
