"""C15 - library-chosen common value is a most frequent value; equality is canonical (DESIGN.md 3, C15)."""
from .. import machine as M
from ..core import Sub, Violation

PROPERTY = "C15"
LEVEL = "exploration"
RULE = (
    "The C06 state machine with several live indexes reached by different histories (incl. 'twin' objects: the same "
    "dense content built with another common value and shifted back, copies, INDX reloads). After every "
    "library-chosen normalisation (from_array without a common value, shift_common(), append, filtered, collapsed) "
    "count(dense == common) must equal the maximum count over all values (ties either way). After EVERY step, for "
    "every ordered pair (a, b) of live indexes: (a == b) iff (shape, common, dense content) coincide; (a != b) is "
    "not (a == b) and never raises; a == a; a equals the index built directly from its own dense content; a == x is "
    "False and a != x is True for x in {dict, list, tuple, None, int, str, ndarray}. Non-trivial = a history with a "
    "mutation and (a pair with equal keys but different row ids, or equal content reached by different histories, or "
    "a checked normalisation). Distinct by the full operation list. array_common: the C01 array strategy with the "
    "common value omitted (counts and mappings, incl. many-to-one, still drawn): the chosen common value must be "
    "a most frequent (mapped) value; non-trivial = a tie for the maximum or a mapping."
)
ASSUMPTIONS = [
    "dense content is read by an independent reader; non-index comparands are plain objects, not duck-typed indexes",
]

EX = {"quick": 3200, "thorough": 150000}
STEPS = {"quick": 25, "thorough": 40}


def runner(sub, tier, seed, shard, nshards, rec):
    M.run_machine(sub, tier, seed, shard, nshards, rec, "C15", EX, STEPS)


def array_cases(tier):
    from . import c01

    return c01.cases(tier)


def check_array_common(case, rec):
    """from_array without a common value picks a most frequent (mapped) value."""
    import numpy

    from catii import iindex

    from . import c01

    if case["common"] is not None:
        case = dict(case, common=None)
    flat = c01.flat_values(case)
    a = numpy.array(flat, dtype=numpy.int64).reshape(case["shape"])
    if a.size == 0:
        return
    a = c01.as_given(a, case.get("in_dtype", "int64"), case.get("layout", "C"))
    extra = [v for v in case.get("counts_extra", []) if v not in set(flat)]
    kwargs = {}
    if case["counts"]:
        kwargs["counts"] = {v: flat.count(v) for v in sorted(set(flat))}
        for v in extra:
            kwargs["counts"][v] = 0  # the variable's whole category list, absent categories with count 0
    m = None
    if case["mapping"] is not None:
        m = {k: v for k, v in case["mapping"]}
        m = {k: v for k, v in m.items() if k in set(flat) or (case["counts"] and k in extra)}
        kwargs["mapping"] = dict(m)
    mapped = flat if m is None else [m[x] for x in flat]
    counts = {}
    for v in mapped:
        counts[v] = counts.get(v, 0) + 1
    best = max(counts.values())
    # the caller keeps its counts / mapping dicts and passes them again (another variable with the same categories,
    # a retry): every one of these conversions must pick a most frequent value
    for turn in range(3):
        try:
            ix = iindex.from_array(a, **kwargs)
        except Exception:
            rec.note("from_array raised (C01 decides that)")
            return
        if counts.get(ix.common, 0) != best:
            raise Violation("from_array (call %d with the same counts / mapping objects) chose common %r which occurs "
                            "%d times; %r occurs %d times" % (turn + 1, ix.common, counts.get(ix.common, 0),
                                                              max(counts, key=counts.get), best),
                            sig="from_array: chosen common is not a most frequent value")
    rec.note("class=" + case["cls"], "mapping=" + case["mapkind"])
    top = [v for v, c in counts.items() if c == best]
    if len(counts) >= 2 and (len(top) >= 2 or m is not None):
        rec.nontrivial()


SUBS = [
    Sub("histories", M.replay, runner=runner, examples=EX, weight=5),
    Sub("array_common", check_array_common, strategy=array_cases, examples={"quick": 8000, "thorough": 200000}),
]
