"""C15 - library-chosen common value is a most frequent value; equality is canonical (DESIGN.md 3, C15)."""
from .. import machine as M
from ..core import Sub

PROPERTY = "C15"
LEVEL = "exploration"
RULE = (
    "The C06 state machine with several live indexes reached by different histories (incl. 'twin' objects: the same "
    "dense content built with another common value and shifted back, copies, INDX reloads). After every "
    "library-chosen normalisation (from_array without a common value, shift_common(), append, filtered, collapsed) "
    "count(dense == common) must equal the maximum count over all values (ties either way). After EVERY step, for "
    "every ordered pair (a, b) of live indexes: (a == b) iff (shape, common, dense content) coincide; (a != b) is "
    "not (a == b) and never raises; a == a; a equals the index built directly from its own dense content; a == x is "
    "False and a != x is True for x in {dict, list, tuple, None, int, str, ndarray}. Non-trivial = a history with a "
    "mutation and (a pair with equal keys but different row ids, or equal content reached by different histories, or "
    "a checked normalisation). Distinct by the full operation list."
)
ASSUMPTIONS = [
    "dense content is read by an independent reader; non-index comparands are plain objects, not duck-typed indexes",
]

EX = {"quick": 3200, "thorough": 150000}
STEPS = {"quick": 25, "thorough": 40}


def runner(sub, tier, seed, shard, nshards, rec):
    M.run_machine(sub, tier, seed, shard, nshards, rec, "C15", EX, STEPS)


SUBS = [Sub("histories", M.replay, runner=runner, examples=EX, weight=5)]
