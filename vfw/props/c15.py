"""C15 - library-chosen common value is a most frequent value; equality is canonical (DESIGN.md 3, C15)."""
from .. import machine as M
from ..core import Sub, Violation, libcall

PROPERTY = "C15"
LEVEL = "exploration"
RULE = (
    "The C06 state machine with several live indexes reached by different histories (incl. 'twin' objects: the same "
    "dense content built with another common value and shifted back, copies, INDX reloads). After every "
    "library-chosen normalisation (from_array without a common value, shift_common(), append, filtered, collapsed) "
    "count(dense == common) must equal the maximum count over all values (ties either way). After EVERY step, for "
    "every ordered pair (a, b) of live indexes: (a == b) iff (shape, common, dense content) coincide; (a != b) is "
    "not (a == b) and never raises; a == a; a equals the index built directly from its own dense content; a == x is "
    "False and a != x is True for x in {dict, list, tuple, None, int, str, ndarray}. Non-trivial = a history with a "
    "mutation and (a pair with equal keys but different row ids, or equal content reached by different histories, or "
    "a checked normalisation). Distinct by the full operation list. array_common: the C01 array strategy with the "
    "common value omitted (counts and mappings, incl. many-to-one, still drawn): the chosen common value must be "
    "a most frequent (mapped) value; non-trivial = a tie for the maximum or a mapping."
)
ASSUMPTIONS = [
    "dense content is read by an independent reader; non-index comparands are plain objects, not duck-typed indexes",
]

EX = {"quick": 3200, "thorough": 150000}
STEPS = {"quick": 25, "thorough": 40}


def runner(sub, tier, seed, shard, nshards, rec):
    M.run_machine(sub, tier, seed, shard, nshards, rec, "C15", EX, STEPS)


def array_cases(tier):
    from . import c01

    return c01.cases(tier)


def check_array_common(case, rec):
    """from_array without a common value picks a most frequent (mapped) value."""
    import numpy

    from catii import iindex

    from . import c01

    if case["common"] is not None:
        case = dict(case, common=None)
    flat = c01.flat_values(case)
    a = numpy.array(flat, dtype=numpy.int64).reshape(case["shape"])
    if a.size == 0:
        return
    a = c01.as_given(a, case.get("in_dtype", "int64"), case.get("layout", "C"))
    extra = [v for v in case.get("counts_extra", []) if v not in set(flat)]
    kwargs = {}
    if case["counts"]:
        kwargs["counts"] = c01.ordered_counts(flat, case.get("counts_order", "value"))
        for v in extra:
            kwargs["counts"][v] = 0  # the variable's whole category list, absent categories with count 0
    m = None
    if case["mapping"] is not None:
        m = {k: v for k, v in case["mapping"]}
        m = {k: v for k, v in m.items() if k in set(flat) or (case["counts"] and k in extra)}
        kwargs["mapping"] = dict(m)
    mapped = flat if m is None else [m[x] for x in flat]
    counts = {}
    for v in mapped:
        counts[v] = counts.get(v, 0) + 1
    best = max(counts.values())
    # the caller keeps its counts / mapping dicts and passes them again (another variable with the same categories,
    # a retry): every one of these conversions must pick a most frequent value
    for turn in range(3):
        try:
            ix = iindex.from_array(a, **kwargs)
        except Exception:
            rec.note("from_array raised (C01 decides that)")
            return
        if counts.get(ix.common, 0) != best:
            raise Violation("from_array (call %d with the same counts / mapping objects) chose common %r which occurs "
                            "%d times; %r occurs %d times" % (turn + 1, ix.common, counts.get(ix.common, 0),
                                                              max(counts, key=counts.get), best),
                            sig="from_array: chosen common is not a most frequent value")
    rec.note("class=" + case["cls"], "mapping=" + case["mapkind"])
    top = [v for v, c in counts.items() if c == best]
    if len(counts) >= 2 and (len(top) >= 2 or m is not None):
        rec.nontrivial()


def enum_near_ties(tier, shard, nshards):
    """Two dominant categories that are balanced or one or two cells apart, from 11 to 400 001 cells: the index is
    built with the MINORITY value as its common value and then normalised by the library (shift_common(), a filter
    that drops a few rows, an append of a few rows). Relative tolerances and 'about half' shortcuts fail only at size."""
    i = 0
    sizes = [11, 101, 1001, 100001, 400001] if tier == "quick" else [11, 101, 1001, 10001, 100001, 400001, 1000001]
    for n in sizes:
        for diff in (0, 1, 2):
            for op in ("shift", "filter", "append"):
                for two_d in (False, True):
                    if i % nshards == shard:
                        yield {"n": n, "diff": diff, "op": op, "two_d": two_d}
                    i += 1


def check_near_ties(case, rec):
    import numpy

    from .. import cubes as Q

    n, diff = case["n"], case["diff"]
    # values 1 and 2 alternate; the last `diff` cells are forced to 1, so 1 leads by about diff cells
    a = numpy.ones(n, dtype=numpy.int64)
    a[1::2] = 2
    if diff:
        a[-diff:] = 1
    c1, c2 = int((a == 1).sum()), int((a == 2).sum())
    minority = 2 if c1 >= c2 else 1
    dense = a.reshape(-1, 1) if case["two_d"] else a
    ix = Q.build_index(dense, minority)
    what = "%s on %d cells (%d x value 1, %d x value 2, common %d)" % (case["op"], n, c1, c2, minority)
    with libcall(what):
        if case["op"] == "shift":
            ix.shift_common()
            after = dense
        elif case["op"] == "filter":
            mask = numpy.ones(n, dtype=bool)
            mask[:3] = False
            ix = ix.filtered(mask, int(mask.sum()))
            after = dense[mask]
        else:
            extra = numpy.array([1, 1, 2], dtype=numpy.int64)
            other = Q.build_index(extra.reshape(-1, 1) if case["two_d"] else extra, 2)
            ix.append(other)
            after = numpy.concatenate([dense, extra.reshape(-1, 1) if case["two_d"] else extra])
    vals, counts = numpy.unique(after, return_counts=True)
    best = int(counts.max())
    have = int((after == ix.common).sum())
    if have != best:
        raise Violation("%s: the library kept / chose common %r which occurs %d times; value %r occurs %d times" % (
            what, ix.common, have, int(vals[counts.argmax()]), best), sig="normalisation keeps a non-modal common value (near tie)")
    got = Q.dense_of(ix)
    if got.shape != after.shape or not numpy.array_equal(got, after):
        raise Violation("%s: content changed" % what, sig="normalisation changed the content (near tie)")
    rec.note("op=" + case["op"], "cells=%d" % n, "lead=%d" % abs(c1 - c2))
    rec.nontrivial_enum()


SUBS = [
    Sub("near_ties", check_near_ties, enumerate=enum_near_ties, exhaustive=True, shards={"quick": 6, "thorough": 8}),
    Sub("histories", M.replay, runner=runner, examples=EX, weight=5),
    Sub("array_common", check_array_common, strategy=array_cases, examples={"quick": 8000, "thorough": 200000}),
]
