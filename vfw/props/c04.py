"""C04 - missing-cell rule; the three report formats agree (DESIGN.md section 3, C04)."""
from hypothesis import strategies as st

from .. import cubes as Q
from ..core import Sub, Violation, libcall
from . import c03

PROPERTY = "C04"
LEVEL = "exploration"
RULE = (
    "The C03 case strategy (cube x aggregate x fact form x weight form); every case is evaluated under BOTH "
    "missing-value policies and ALL THREE report formats (NaN in place, (sentinel, False) with a drawn sentinel "
    "in {0, -1, 99.5}, plain 0) on BOTH cube types = 12 library calls per case (the index cube through its methods or, one case in four, through explicit function objects "
    "built with tracing=False), each on fresh copies of the fact / weight arguments or (two cases in three) all on the "
    "same objects. Oracle (a): the set of missing cells "
    "of the NaN and pair formats equals the brute-force rule (no rows; all / any rows invalid in fact or weight; "
    "for a mean also valid weights summing to zero). Oracle (b): NaN-format missing set == ~validity of the pair "
    "format, non-missing values identical across the three formats, the plain format holds 0 at the missing cells. "
    "Excluded as the property says: valid_count + plain value + propagate. Non-trivial = the case has a cell "
    "whose rows are partly valid and partly missing AND a dimension whose common category occurs in the data "
    "(so the policy difference lands in a reconstructed cell), or a multi-column fact with different missing "
    "patterns per column. Distinct by case content. residues: 1..2-dimension cubes under inexact weights (0.1, 0.2, 0.3, 0.7, "
    "1.1 ...) whose common category is absent from the data or carries no valid weight, so that the cells reconstructed by "
    "differencing hold a rounding residue instead of an exact 0 and must still be reported missing in all three formats."
)
ASSUMPTIONS = c03.ASSUMPTIONS + [
    "the sentinel's value at missing cells is not asserted (an integer region legitimately truncates 99.5)",
]


@st.composite
def cases(draw, tier):
    spec = draw(c03.cases(tier, big=False))
    if draw(st.integers(0, 11)) == 0:
        # hundreds / thousands of rows (a recipe), incl. exactly 256 / 1024 / 65536 rows, no dimension at all, a single
        # category, and no missing value anywhere
        spec = draw(Q.large_specs(c03.AGGS))
        spec["via"] = "method"
        spec["xdtypes"] = ["int64"] * len(spec["dims"])
        spec["xexplicit"] = draw(st.booleans())
        spec["args"] = draw(st.sampled_from(["fresh", "shared"]))
    spec.pop("rma", None)
    spec.pop("ignore", None)
    spec["sentinel"] = draw(st.sampled_from([0, -1, 99.5]))
    return spec


@st.composite
def residue_cases(draw, tier):
    """Cells that the index cube RECONSTRUCTS by differencing and that hold no valid row, under weights whose sums
    are inexact (0.1, 0.2, 0.3, 0.7 ...): the differenced weighted count is then a rounding residue like 2.8e-17
    instead of 0, and the library must still report the cell missing (its adjust_zeros step exists for this)."""
    spec = draw(c03.cases(tier, big=False, max_nd=2))
    tries = 0
    while (not spec["dims"] or spec["N"] < 4) and tries < 5:
        spec = draw(c03.cases(tier, big=False, max_nd=2))
        tries += 1
    N = spec["N"]
    spec["agg"] = draw(st.sampled_from(["mean", "mean", "mean", "count", "valid_count", "sum"]))
    if spec["agg"] != "count" and spec.get("fact") is None:
        spec["fact"] = draw(Q.fact_specs(N, dyadic=False))
    if spec["agg"] == "count":
        spec["fact"] = None
    vals = draw(st.lists(st.sampled_from([0.1, 0.2, 0.3, 0.7, 1.1, 0.35, 2.3]), min_size=N, max_size=N))
    valid = draw(st.lists(st.integers(0, 9).map(lambda x: x > 0), min_size=N, max_size=N))
    form = draw(st.sampled_from(["nan", "tuple"]))
    for d in spec["dims"]:
        mode = draw(st.sampled_from(["absent", "absent", "invalid", "keep"]))
        flat = d["data"]
        if mode == "absent" and flat:
            d["common"] = max(flat) + 1  # no row holds the common category: its cells are pure reconstruction
        elif mode == "invalid" and not d["tail"]:
            valid = [v and x != d["common"] for v, x in zip(valid, flat)]  # rows there exist but carry no valid weight
    spec["weights"] = {"kind": "array", "dtype": "float", "form": form, "values": vals, "valid": valid,
                       "junk": [0] * N, "as_list": False, "rough": True, "wide": False}
    spec.pop("rma", None)
    spec.pop("ignore", None)
    spec["sentinel"] = draw(st.sampled_from([0, -1, 99.5]))
    return spec


def _overwrite(dst, src):
    """Copy src's content into dst's array objects IN PLACE; False when there is no array object to edit."""
    import numpy

    if isinstance(dst, tuple):
        return all([_overwrite(d, s) for d, s in zip(dst, src)])
    if not isinstance(dst, numpy.ndarray) or dst.dtype != src.dtype or dst.shape != src.shape:
        return False
    dst[...] = src
    return True


def _rolled(spec, step):
    spec = dict(spec)
    v = list(spec["valid"])
    step = step % len(v) if v else 0
    spec["valid"] = v[step:] + v[:step]
    return spec


def edited_pass(case, dense, full, ns, Narg):
    """The rule is about the arguments' CURRENT content: evaluate, then overwrite the very same fact / weight array
    objects in place with another missing pattern (a value voided, a missing one filled in) and evaluate again."""
    import numpy

    N = case["N"]
    agg = case["agg"]
    f, w = case["fact"], case["weights"]
    after = dict(case)
    changed = False
    if f is not None and not f["as_list"] and not all(f["valid"]) and any(f["valid"]):
        after["fact"] = _rolled(f, f["K"] or 1)
        changed = changed or after["fact"]["valid"] != f["valid"]
    if w is not None and w["kind"] == "array" and not w["as_list"] and not all(w["valid"]) and any(w["valid"]):
        after["weights"] = _rolled(w, 1)
        changed = changed or after["weights"]["valid"] != w["valid"]
    if not changed:
        return 0
    done = 0
    for ignore in (False, True):
        sub0, sub1 = dict(case, ignore=ignore), dict(after, ignore=ignore)
        farg, warg, _, _, _, _ = c03.expected(sub0, dense, full)
        f1, w1, exp_v, exp_m, _, _ = c03.expected(sub1, dense, full)
        for kind in ("ccube", "xcube"):
            for rma in ("nan", ["tuple", case["sentinel"]]):
                fa, wa, _, _, _, _ = c03.expected(sub0, dense, full)
                what = "%s.%s(ignore_missing=%s, %s)" % (kind, agg, ignore, rma)
                em = exp_m
                with libcall(what + " before / after an in-place edit of its arguments"):
                    if kind == "ccube":
                        cube, _ = Q.make_ccube(case, dense)
                    else:
                        cube, used = Q.make_xcube(case, dense, case["xdtypes"], case["xexplicit"])
                        if tuple(used) != tuple(full):
                            _, em, _ = Q.crop_to(exp_v, exp_m, ns, used, full)
                    Q.call_agg(cube, agg, fa, wa, ignore, rma, N=Narg)
                    ok = True
                    if fa is not None and sub1["fact"] is not sub0["fact"]:
                        ok = _overwrite(fa, f1) and ok
                    if sub1["weights"] is not sub0["weights"]:
                        ok = _overwrite(wa, w1) and ok
                    if not ok:
                        continue
                    res = Q.call_agg(cube, agg, fa, wa, ignore, rma, N=Narg)
                gv, gm = Q.normalise(res, rma, what)
                gv, gm = c03.fix0d(gv, gm, numpy.empty(em.shape))
                done += 1
                if gm is not None and gm.shape == em.shape and not numpy.array_equal(gm, em):
                    idx = tuple(int(x) for x in numpy.argwhere(gm != em)[0])
                    raise Violation(
                        "%s after its fact/weight arrays were edited in place: cell %s is reported %s but the rule, "
                        "applied to the arrays' current content, says %s" % (
                            what, idx, "missing" if gm[idx] else "valid", "missing" if em[idx] else "valid"),
                        sig="%s.%s missing rule after an in-place edit" % (kind, agg))
    return done


def check(case, rec):
    import numpy

    if case.get("recipe"):
        rec.note("large recipe case (N=%d, valid %s)" % (case["N"], case.get("valid")))
    case = Q.expand(case)
    dense = Q.dense_dims(case)
    N = case["N"]
    nd = len(dense)
    agg = case["agg"]
    _, full = Q.cube_shape(case, dense)
    ns = len(Q.scaffold_shape(case))
    Narg = N if (nd == 0 and agg == "count") else None
    formats = ["nan", ["tuple", case["sentinel"]], "plain"]
    any_mixed = 0
    sharing = case.get("args", "fresh") != "fresh"
    shared = c03.expected(dict(case, ignore=False), dense, full)[:2] if sharing else None
    for ignore in (False, True):
        sub = dict(case, ignore=ignore)
        _, _, exp_v, exp_m, mixed, tol = c03.expected(sub, dense, full)
        any_mixed += mixed
        for kind in ("ccube", "xcube"):
            results = {}
            for rma in formats:
                if agg == "valid_count" and rma == "plain" and not ignore:
                    continue
                if sharing:
                    farg, warg = shared  # all twelve requests on the same fact / weight objects
                else:
                    farg, warg, _, _, _, _ = c03.expected(sub, dense, full)
                what = "%s.%s(ignore_missing=%s, %s)" % (kind, agg, ignore, rma)
                ev, em = exp_v, exp_m
                with libcall(what):
                    if kind == "ccube":
                        cube, _ = Q.make_ccube(case, dense)
                    else:
                        cube, used = Q.make_xcube(case, dense, case["xdtypes"], case["xexplicit"])
                        if tuple(used) != tuple(full):
                            ev, em, _ = Q.crop_to(exp_v, exp_m, ns, used, full)
                    res = Q.call_agg(cube, agg, farg, warg, ignore, rma, N=Narg, via=case.get("via"))
                gv, gm = Q.normalise(res, rma, what)
                gv, gm = c03.fix0d(gv, gm, ev)
                if gv.shape != ev.shape:
                    raise Violation("%s: shape %s, expected %s" % (what, gv.shape, ev.shape),
                                    sig="%s.%s shape" % (kind, agg))
                key = rma if isinstance(rma, str) else "tuple"
                results[key] = (gv, gm)
                if gm is not None and not numpy.array_equal(gm, em):
                    idx = tuple(int(x) for x in numpy.argwhere(gm != em)[0])
                    raise Violation(
                        "%s: cell %s is reported %s but the rule says %s" % (
                            what, idx, "missing" if gm[idx] else "valid", "missing" if em[idx] else "valid"),
                        sig="%s.%s missing rule (%s)" % (kind, agg, key))
            nv, nm = results["nan"]
            tv, tm = results["tuple"]
            if not numpy.array_equal(nm, tm):
                raise Violation("%s.%s ignore=%s: NaN format and (values, validity) format disagree on the "
                                "missing cells" % (kind, agg, ignore), sig="%s.%s formats disagree on missing" % (kind, agg))
            def close(a, b):
                # bit-identical in the exact (dyadic) mode; in the rough-float mode the formats may differ by
                # rounding residues of the marginal differencing (e.g. 2.8e-17 vs the 0 a plain-value run snaps
                # to): the property's own tolerance (1e-9 x grand total) applies, as in C03
                return bool(numpy.all(numpy.abs(a - b) <= tol))

            if not close(nv[~nm], tv[~nm]):
                raise Violation("%s.%s ignore=%s: values differ between NaN and pair formats" % (kind, agg, ignore),
                                sig="%s.%s formats disagree on values" % (kind, agg))
            if "plain" in results:
                pv, _ = results["plain"]
                if not close(pv[~nm], nv[~nm]):
                    raise Violation("%s.%s ignore=%s: plain-format values differ from the NaN format at valid cells"
                                    % (kind, agg, ignore), sig="%s.%s plain format values" % (kind, agg))
                if not numpy.all(numpy.abs(pv[nm]) <= tol):
                    raise Violation("%s.%s ignore=%s: plain format holds %r at a missing cell, expected the "
                                    "replacement value 0" % (kind, agg, ignore, float(pv[nm][0])),
                                    sig="%s.%s plain format at missing cells" % (kind, agg))
    edited = edited_pass(case, dense, full, ns, Narg)
    if edited:
        rec.note("in-place edited arguments re-evaluated")
    recon = any(bool((a == d["common"]).any()) for d, a in zip(case["dims"], dense))
    f = case["fact"]
    percol = False
    if f is not None and (f["K"] or 0) >= 2:
        v = numpy.array(f["valid"], dtype=bool).reshape(N, f["K"])
        percol = bool((v != v[:, :1]).any())
    rec.note("agg=" + agg, "nd=%d" % nd, "args=" + ("shared by all requests" if sharing else "fresh per request"))
    if any_mixed:
        rec.note("has mixed cell")
    if percol:
        rec.note("columns with different missing patterns")
    if (any_mixed and recon) or percol:
        rec.nontrivial()


SUBS = [
    Sub("residues", check, strategy=residue_cases, examples={"quick": 3000, "thorough": 80000}),
    Sub("formats", check, strategy=cases, examples={"quick": 4000, "thorough": 120000}),
]
