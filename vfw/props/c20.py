"""C20 - an interrupt raised at any cancellation point stops the cube cleanly (DESIGN.md 3, C20)."""
import itertools
import os
import threading
import warnings

from hypothesis import strategies as st

from .. import build
from .. import cubes as Q
from ..core import Sub, Violation, libcall
from ..detpool import DetPool
from . import c16, c17

PROPERTY = "C20"
LEVEL = "fault_enumeration"
RULE = (
    "Hypothesis cubes with k in 1..10 sub-cubes (both cube types, 1..3 aggregate-function objects of count / "
    "valid_count / sum / mean). Serial mode: EVERY invocation index i < k of the interrupt callback is enumerated "
    "(plus the run that never raises). Pooled mode (real ThreadPool of size 1..8, or DetPool with a drawn schedule): "
    "every singleton {i}, the full set, the empty set and two drawn subsets of invocation indices. Oracle, serial: "
    "calculate raises the very exception object raised at invocation i and the callback was consulted exactly i+1 "
    "times; when nothing is raised it is consulted exactly k times and the result equals the uninstrumented run. "
    "Pooled: calculate raises an object that is one of those raised (identity) and returns iff none was raised; the "
    "pool can be joined (no worker keeps running). Afterwards, with a non-raising callback, calculate on the SAME "
    "cube and function objects equals a fresh evaluation bit for bit, twice. Evaluations = injected-fault runs. "
    "Non-trivial = 0 < i < k-1 in serial mode, or a pooled run with >= 2 raising invocations. Distinct by (case, "
    "fault set)."
)
ASSUMPTIONS = [
    "the fault is an exception raised by the caller's check_interrupt callback (any Exception subclass; drawn from six "
    "families: plain, RuntimeError, ValueError, OSError, KeyError, TypeError)",
    "in pooled mode the invocation index is the order in which the callback happens to be consulted",
]


class Interrupt(Exception):
    pass


# the caller's exception may belong to any family (applications often root theirs at RuntimeError or OSError): a
# library that catches one of these families around its pool for reasons of its own must not swallow the interrupt
class InterruptRuntime(Interrupt, RuntimeError):
    pass


class InterruptValue(Interrupt, ValueError):
    pass


class InterruptOS(Interrupt, OSError):
    pass


class InterruptKey(Interrupt, KeyError):
    pass


class InterruptType(Interrupt, TypeError):
    pass


EXC_CLASSES = [Interrupt, InterruptRuntime, InterruptValue, InterruptOS, InterruptKey, InterruptType]


@st.composite
def cases(draw, tier, mode):
    N = draw(st.integers(1, 8))
    tails = [(), (2,), (3,), (4,), (5,), (2, 2), (3, 2), (2, 3), (5, 2), (3, 3), (2, 4), (7,), (10,)]
    d0 = draw(Q.dim_specs(N, tails))
    dims = [d0]
    scaffold = 1
    for e in d0["tail"]:
        scaffold *= e
    if draw(st.booleans()):
        t2 = [t for t in [(), (), (2,), (3,)] if scaffold * (t[0] if t else 1) <= 10]
        dims.append(draw(Q.dim_specs(N, t2)))
    case = {"N": N, "dims": dims, "shape_mode": draw(st.sampled_from(["exact", "inferred"])),
            "pads": [1] * len(dims), "kind": draw(st.sampled_from(["ccube", "xcube"])), "mode": mode}
    case["fact"] = draw(Q.fact_specs(N, dtypes=("float",)))
    case["weights"] = draw(Q.weight_specs(N, scalar_ok=False, zero_ok=False, kinds=("none", "array")))
    n = draw(st.integers(1, 3))
    case["funcs"] = [{"agg": draw(st.sampled_from(c17.CAGGS)), "ignore": draw(st.booleans()),
                      "rma": draw(st.sampled_from(["nan", ["tuple", 0]])), "prob": 0.5,
                      "weighted": draw(st.booleans()), "tracing": draw(st.sampled_from([None, True, False]))} for _ in range(n)]
    case["poolsize"] = draw(st.integers(1, 8))
    if mode == "det":
        pts = draw(st.lists(st.tuples(st.integers(1, 6000), st.integers(0, 15)), max_size=6))
        case["schedule"] = {"kind": "preempt", "prio": draw(st.permutations(list(range(8)))),
                            "points": [list(p) for p in pts]}
    case["subsets"] = draw(st.lists(st.lists(st.integers(0, 9), unique=True, min_size=2, max_size=5), max_size=2))
    case["exc"] = draw(st.integers(0, 5))  # family of the callback's exception
    return case


def run_one(case, fresh, k, faults, reference, rec):
    """One injected-fault run followed by two clean runs on the same objects."""
    import catii

    mode = case["mode"]
    kind = case["kind"]
    cube, L = fresh()
    counter = itertools.count()
    raised = []
    lock = threading.Lock()
    calls = [0]

    def callback():
        i = next(counter)
        with lock:
            calls[0] += 1
        if i in faults:
            e = EXC_CLASSES[case.get("exc", 0) % len(EXC_CLASSES)](i)
            with lock:
                raised.append(e)
            raise e

    cube.check_interrupt = callback
    pools = []
    if mode != "serial":
        cube.parallel = True
        cube.poolsize = case["poolsize"]
        if mode == "det":
            def factory(size=None, *a, **kw):
                p = DetPool(size, case["schedule"], os.path.dirname(catii.__file__))
                pools.append(p)
                return p
        else:
            def factory(size=None, *a, **kw):
                p = build.real_threadpool()(size)
                pools.append(p)
                return p
        build.POOL_FACTORY[0] = factory
    else:
        cube.parallel = False
    what = "%s.calculate [%s, faults at %s]" % (kind, mode, sorted(faults))
    caught = None
    result = None
    try:
        try:
            result = cube.calculate(L)
        except Interrupt as e:
            caught = e
        except Exception as e:
            raise Violation("%s raised %s: %s instead of the callback's exception" % (what, type(e).__name__, e),
                            sig="%s: foreign exception (%s)" % (kind, mode))
    finally:
        build.POOL_FACTORY[0] = None
    # the pool must come to rest
    for p in pools:
        t = threading.Thread(target=_close_join, args=(p,))
        t.start()
        t.join(20)
        if t.is_alive():
            raise Violation("%s: the worker pool cannot be joined 20 s after calculate finished" % what,
                            sig="%s: pool does not stop (%s)" % (kind, mode))
    expected_to_raise = any(i < k for i in faults) if mode == "serial" else bool(raised)
    if mode == "serial":
        first = min([i for i in faults if i < k], default=None)
        if first is None:
            if caught is not None:
                raise Violation("%s raised although the callback never did" % what, sig="%s: spurious raise" % kind)
            if calls[0] != k:
                raise Violation("%s: callback consulted %d times for %d sub-cubes" % (what, calls[0], k),
                                sig="%s: callback not consulted once per sub-cube (serial)" % kind)
        else:
            if caught is None:
                raise Violation("%s returned although the callback raised at invocation %d" % (what, first),
                                sig="%s: interrupt swallowed (serial)" % kind)
            if not raised or caught is not raised[0]:
                raise Violation("%s raised a different exception object than the callback's" % what,
                                sig="%s: not the raised object (serial)" % kind)
            if calls[0] != first + 1:
                raise Violation("%s: callback consulted %d times, expected %d (stop at the first interrupt)"
                                % (what, calls[0], first + 1), sig="%s: evaluation continued after interrupt" % kind)
    else:
        if raised and caught is None:
            raise Violation("%s returned although the callback raised %d time(s)" % (what, len(raised)),
                            sig="%s: interrupt swallowed (%s)" % (kind, mode))
        if not raised and caught is not None:
            raise Violation("%s raised although the callback never did" % what, sig="%s: spurious raise" % kind)
        if caught is not None and not any(caught is e for e in raised):
            raise Violation("%s raised an exception object that is none of those raised by the callback" % what,
                            sig="%s: not a raised object (%s)" % (kind, mode))
        if not raised and calls[0] != k:
            raise Violation("%s: callback consulted %d times for %d sub-cubes" % (what, calls[0], k),
                            sig="%s: callback not consulted once per sub-cube (%s)" % (kind, mode))
        if calls[0] > k:
            raise Violation("%s: callback consulted %d times for %d sub-cubes" % (what, calls[0], k),
                            sig="%s: callback consulted too often" % kind)
    if caught is None and [c16.bits(r) for r in result] != reference:
        raise Violation("%s: result with a silent callback differs from the uninstrumented run" % what,
                        sig="%s: callback changes the result" % kind)
    # re-use of the same objects
    n2 = [0]

    def quiet():
        with lock:
            n2[0] += 1

    cube.check_interrupt = quiet
    for attempt in (1, 2):
        pools2 = []
        if mode != "serial":
            def factory2(size=None, *a, **kw):
                p = build.real_threadpool()(size)
                pools2.append(p)
                return p
            build.POOL_FACTORY[0] = factory2
        try:
            with libcall(what + " re-use %d" % attempt):
                again = [c16.bits(r) for r in cube.calculate(L)]
        finally:
            build.POOL_FACTORY[0] = None
            for p in pools2:
                _close_join(p)
        if again != reference:
            raise Violation("%s: calculate no. %d on the same cube and function objects afterwards differs from "
                            "a fresh evaluation" % (what, attempt), sig="%s: re-use after interrupt differs (%s)" % (kind, mode))
    if n2[0] != 2 * k:
        raise Violation("%s: callback consulted %d times in two clean runs of %d sub-cubes" % (what, n2[0], k),
                        sig="%s: callback not consulted once per sub-cube (re-use)" % kind)
    rec.evaluations += 1
    fl = sorted(i for i in faults if i < k)
    if (mode == "serial" and fl and 0 < fl[0] < k - 1) or (mode != "serial" and len(raised) >= 2):
        rec.nontrivial(key=[case, fl])


def _close_join(p):
    try:
        p.close()
    except Exception:
        pass
    try:
        p.join()
    except Exception:
        pass


def check(case, rec):
    fresh, funcs = c16.build_call(case)
    with warnings.catch_warnings():
        warnings.simplefilter("ignore")
        with libcall("reference evaluation"):
            cube, L = fresh()
            cube.parallel = False
            reference = [c16.bits(r) for r in cube.calculate(L)]
        k = 1
        for d in case["dims"]:
            for e in d["tail"]:
                k *= e
        mode = case["mode"]
        fault_sets = [set()] + [{i} for i in range(k)]
        if mode != "serial":
            fault_sets.append(set(range(k)))
            fault_sets += [set(s) for s in case["subsets"]]
        for faults in fault_sets:
            run_one(case, fresh, k, faults, reference, rec)
    rec.note("mode=" + mode, "kind=" + case["kind"], "k=%s" % ("1" if k == 1 else "2" if k == 2 else "3+"))
    rec.count("fault_runs", len(fault_sets))


SUBS = [
    Sub("serial", check, strategy=lambda tier: cases(tier, "serial"), examples={"quick": 400, "thorough": 20000}),
    Sub("real", check, strategy=lambda tier: cases(tier, "real"), examples={"quick": 160, "thorough": 8000},
        weight=6),
    Sub("det", check, strategy=lambda tier: cases(tier, "det"), examples={"quick": 160, "thorough": 8000},
        weight=5),
]
