"""C14 - walk presents exactly the non-empty uncommon / marginal intersections (DESIGN.md 3, C14)."""
import itertools
from collections import Counter

from hypothesis import strategies as st

from .. import cubes as Q
from ..core import Sub, Violation, libcall

PROPERTY = "C14"
LEVEL = "exploration"
RULE = (
    "Hypothesis lists of 1..4 one-axis index dimensions (1..5 categories, skewed, any common value incl. absent), "
    "N in 0..20 (two fifths of the cases 40..120 rows with lopsided categories), built by an independent constructor (row-id arrays contiguous, read-only or non-contiguous views; one dimension in six also carries an explicit entry without row ids, which must never be presented). Oracle: by scanning rows, the multiset "
    "{(c, rows(c)) : c in prod(uncommon_d u {-1}) minus {all -1}, rows(c) non-empty}; compared with what walk() "
    "delivers to one callback, to each of two callbacks, and with interactions(); row ids must be strictly "
    "increasing uint32 and no coordinate may equal its dimension's common value. Non-trivial = at least 3 "
    "dimensions and at least one delivered coordinate tuple mixing a category with the marginal marker. "
    "Distinct by case content."
)
ASSUMPTIONS = ["dimensions are one-axis indexes (the property's domain); common values are >= 0"]


@st.composite
def cases(draw, tier):
    if draw(st.integers(0, 19)) == 0:
        # hundreds / thousands of rows, sorted by the first dimension or in blocks of 64 / 1024 identical rows
        case = draw(Q.large_specs(["count"]))
        for d in case["dims"]:
            d["tail"] = []
            d["extent"] = min(d["extent"], 6)
            d["common"] = min(d["common"], 6)
        if draw(st.booleans()):
            case["dims"].reverse()  # the sorted dimension last
        case["hollow"] = []
        return case
    case = draw(base_cases(tier))
    # An explicit entry with NO row ids is not well-formed by C07's standard, but the constructor and validate()
    # accept it and walk() carries guards for it: such a category is matched by no row and must never be presented.
    hollow = []
    for d in range(len(case["dims"])):
        if draw(st.integers(0, 5)) == 0:
            hollow.append([d, draw(st.integers(0, 7))])
    case["hollow"] = hollow
    return case


def base_cases(tier):
    # mostly small cubes; one in four with up to 72 rows so that lopsided row-id sets (a dominant category
    # against a rare one) reach whatever size-dependent strategy the intersection kernel uses
    return st.one_of(Q.cube_specs(max_nd=4, min_nd=1, max_n=20, tails=((),)),
                     Q.cube_specs(max_nd=4, min_nd=1, max_n=20, tails=((),)),
                     Q.cube_specs(max_nd=4, min_nd=1, max_n=20, tails=((),)),
                     Q.cube_specs(max_nd=3, min_nd=2, max_n=120, min_n=40, tails=((),)),
                     Q.cube_specs(max_nd=2, min_nd=2, max_n=120, min_n=60, tails=((),)))


def check(case, rec):
    import numpy

    from catii import ccube

    if case.get("recipe"):
        rec.note("large recipe case (rows %s)" % case.get("rows"))
    case = Q.expand(case)
    dense = Q.dense_dims(case)
    N = case["N"]
    commons = [d["common"] for d in case["dims"]]
    idxs = [Q.build_index(a, c, readonly=case.get("readonly", False), reverse=bool(case.get("reverse")))
            for a, c in zip(dense, commons)]
    nhollow = 0
    for d, v in case.get("hollow", []):
        present = set(dense[d].tolist()) | {commons[d]}
        if v not in present:
            idxs[d][(v,)] = numpy.empty(0, dtype=numpy.uint32)
            nhollow += 1
    shape_arg, _ = Q.cube_shape(case, dense)
    if shape_arg is not None and nhollow:
        shape_arg = tuple(max(s, 8) for s in shape_arg)
    cols = [a.tolist() for a in dense]
    uncommon = [sorted(set(c) - {k}) for c, k in zip(cols, commons)]
    want = Counter()
    mixed = False
    for c in itertools.product(*[u + [-1] for u in uncommon]):
        if all(x == -1 for x in c):
            continue
        rows = tuple(r for r in range(N) if all(x == -1 or col[r] == x for x, col in zip(c, cols)))
        if rows:
            want[(c, rows)] += 1
            if any(x == -1 for x in c):
                mixed = True

    def canon(pairs, what):
        got = Counter()
        for coords, rowids in pairs:
            if not isinstance(rowids, numpy.ndarray) or rowids.dtype != numpy.uint32:
                raise Violation("%s delivered row ids of type %s" % (
                    what, getattr(rowids, "dtype", type(rowids))), sig="walk rowid dtype")
            rl = rowids.tolist()
            if any(b <= a for a, b in zip(rl, rl[1:])):
                raise Violation("%s delivered unsorted row ids %s for %s" % (what, rl, coords),
                                sig="walk rowids not increasing")
            coords = tuple(coords)
            for x, k in zip(coords, commons):
                if x == k:
                    raise Violation("%s presented the common category: %s" % (what, coords),
                                    sig="walk presented common")
            got[(tuple(int(x) for x in coords), tuple(rl))] += 1
        return got

    def same(got, what):
        if got != want:
            extra = list((got - want).items())[:2]
            lack = list((want - got).items())[:2]
            raise Violation("%s: delivered but not expected %s; expected but not delivered %s"
                            % (what, extra, lack), sig=what + " multiset differs")

    with libcall("ccube.walk(func)"):
        cube = ccube(idxs, shape_arg)
        out = []
        cube.walk(lambda c, r: out.append((c, r.copy())))
    same(canon(out, "walk(func)"), "walk(func)")
    with libcall("ccube.walk([f, g])"):
        cube = ccube(idxs, shape_arg)
        o1, o2 = [], []
        cube.walk([lambda c, r: o1.append((c, r.copy())), lambda c, r: o2.append((c, r.copy()))])
    same(canon(o1, "walk([f, g])[0]"), "walk([f, g])")
    same(canon(o2, "walk([f, g])[1]"), "walk([f, g])")
    with libcall("ccube.interactions"):
        inter = ccube(idxs, shape_arg).interactions()
    same(canon(inter, "interactions()"), "interactions()")
    # a callback may itself look at the cube (a custom aggregate consulting interactions()): the outer walk
    # and the nested one must both be complete
    with libcall("ccube.walk with a callback that calls interactions()"):
        cube = ccube(idxs, shape_arg)
        outer, nested = [], []

        def cb(c, r):
            outer.append((c, r.copy()))
            if len(outer) == 1 + case["N"] % 3:
                nested.extend(cube.interactions())

        cube.walk(cb)
    same(canon(outer, "walk(reentrant callback)"), "walk(reentrant callback)")
    if nested:
        same(canon(nested, "interactions() from inside a callback"), "interactions() nested in a walk")
    rec.note("nd=%d" % len(dense), "delivered=%s" % ("0" if not want else "1+"),
             "rowids=%s" % {False: "plain", True: "readonly"}.get(case.get("readonly", False), "strided"))
    if nhollow:
        rec.note("index with an explicit empty entry")
    if len(dense) >= 3 and mixed:
        rec.nontrivial()


SUBS = [Sub("walk", check, strategy=cases, examples={"quick": 8000, "thorough": 300000})]
