"""C08 - sorted-set kernels compute exact set algebra (DESIGN.md section 3, C08)."""
import os

from .. import fuzzrun
from .. import kernels as K
from ..core import VERIF, Sub

PROPERTY = "C08"
LEVEL = "exploration"
RULE = (
    "pairs_exh: every ordered pair (A, B) of subsets of three universes of m values ({0..m-1}, "
    "{2^32-m..2^32-1}, and one split between both ends), m=7 quick / m=10 thorough, each pair run through "
    "intersection, union and difference; many_exh: every k-tuple of subsets for the multi-way union "
    "(k=3, m=4 and k=4, m=3 quick; k=3, m=5 and k=4, m=4 thorough); blocks_exh: consecutive / evenly spaced runs of 15..1025 (thorough 4097) row ids - powers of two and one off - "
    "against themselves, shifted copies, halves, every other element, block-boundary elements, in every memory layout, "
    "and three-way lists of them; skew_exh: lopsided operands - a long array of 16..33 "
    "(thorough ..129) elements against every subset of 1..3 values taken from windows at both of its ends and its "
    "middle (members and non-members), in both operand orders and at both ends of the uint32 range, because "
    "size-dependent strategies (binary search / galloping) fail at the ends of the long operand; pairs_hyp / wrappers / many_hyp: Hypothesis "
    "gap-encoded strictly increasing uint32 arrays with an explicit overlap pattern, memory layout (contiguous, "
    "strided, offset view, read-only), None operands and copy flags. Oracle: Python set algebra, sorted. "
    "Non-trivial pair = both operands non-empty with overlapping value ranges (the merge loop, not a shortcut, "
    "produced the result); fuzz: an Atheris / libFuzzer campaign (coverage-guided through the instrumented ASan build "
    "of the kernels; bytes decoded into gap-encoded arrays, layouts, None operands, k-way lists; oracle inside the "
    "target; half the shards start from an empty corpus, half from 4 small valid inputs; 4 000 executions per shard "
    "quick, 500 000 thorough); non-trivial multi-way case = at least two non-empty arrays sharing a value; "
    "wrapper case = one with a None operand or an empty result. Distinct by operand contents."
)
ASSUMPTIONS = [
    "inputs are strictly increasing uint32 arrays (the documented precondition of every kernel)",
    "Python set algebra on the element lists is the reference",
]


def check_c08(case, rec):
    K.check_any(case, rec, "c08", enum=False)


def check_c08_enum(case, rec):
    K.check_any(case, rec, "c08", enum=True)


def enum_pairs(tier, shard, nshards):
    return K.enum_pairs(7 if tier == "quick" else 10, shard, nshards)


def enum_many(tier, shard, nshards):
    if tier == "quick":
        plans = [(4, 3), (3, 4)]
    else:
        plans = [(5, 3), (4, 4), (2, 6)]
    for m, k in plans:
        for c in K.enum_many(m, k, shard, nshards):
            yield c


def L(tier):
    return 300 if tier == "quick" else 600


def fuzz_runner(sub, tier, seed, shard, nshards, rec):
    fuzzrun.run_campaign(sub, tier, seed, shard, nshards, rec,
                         os.path.join(VERIF, "vfw", "fuzz", "kernels_fuzz.py"),
                         {"quick": 4000, "thorough": 500000}, asan=True, seed_corpus=kernel_seeds,
                         asan_abort_is_violation=False, mode="c08")


def kernel_seeds(corpus):
    # a few small valid inputs in the target's byte encoding (ints are consumed from the END of the buffer)
    for i, b in enumerate([bytes([3, 1, 2, 1, 1, 3, 1, 2, 0, 0]), bytes([1, 1, 1, 1, 4, 2, 2, 2, 2, 4, 0, 1, 5]),
                           bytes([0] * 8 + [3, 3, 3, 4, 9]), bytes([2, 2, 5, 1, 7])]):
        with open(os.path.join(corpus, "seed%d" % i), "wb") as f:
            f.write(b)


SUBS = [
    Sub("skew_exh", check_c08_enum, enumerate=K.enum_skewed, exhaustive=True, marker=True, weight=4,
        shards={"quick": 8, "thorough": 16}),
    Sub("blocks_exh", check_c08_enum, enumerate=K.enum_blocks, exhaustive=True, marker=True, weight=4,
        shards={"quick": 8, "thorough": 16}),
    Sub("pairs_exh", check_c08_enum, enumerate=enum_pairs, exhaustive=True, marker=True, weight=5),
    Sub("many_exh", check_c08_enum, enumerate=enum_many, exhaustive=True, marker=True, weight=3,
        shards={"quick": 8, "thorough": 16}),
    Sub("pairs_hyp", check_c08, strategy=lambda tier: K.pair_cases(L(tier)), marker=True,
        examples={"quick": 8000, "thorough": 400000}),
    Sub("wrappers", check_c08, strategy=lambda tier: K.wrapper_cases(40), marker=True,
        examples={"quick": 6000, "thorough": 200000}, shards={"quick": 8, "thorough": 16}),
    Sub("many_hyp", check_c08, strategy=lambda tier: K.many_cases(60), marker=True,
        examples={"quick": 6000, "thorough": 200000}, shards={"quick": 8, "thorough": 16}),
    Sub("fuzz", check_c08, runner=fuzz_runner, variant="plain", shards={"quick": 2, "thorough": 8},
        rlimit_gb=0, weight=9),
]
