"""C01 - array -> inverted index -> array is lossless (DESIGN.md section 3, C01)."""
from hypothesis import strategies as st

from .. import cubes as Q
from ..core import Sub, Violation, libcall
from ..machine import wellformed

PROPERTY = "C01"
LEVEL = "exploration"
RULE = (
    "Hypothesis integer arrays with ndim 1 or 2 and N >= 0 (incl. (0,), (0, C), (N, 0); a third of the 2-D ones with "
    "constant columns), values from palettes that "
    "straddle every dtype rung ({0..5}, {-3..3}, {254,255,256}, {65535,65536}, {2^31-1, 2^31, 2^31+1}, {-2^31-1}, "
    "{2^62, -2^62}, mixed) in three shape classes built by construction so that both construction strategies run: "
    "'small' (< 5 distinct values), 'dense-many' (>= 5 values, many uncommon cells -> per-value numpy.where) and "
    "'sparse-many' (5..12 distinct values, 80..400 rows or a batch-sized 256 .. 131 072 = 2^17 rows, so few uncommon cells that the per-row scan is selected). "
    "The array is handed over as int64 / the narrowest (un)signed dtype / int32 / uint64, C-ordered / Fortran-ordered / "
    "a strided view / read-only / a nested list, and its buffer is overwritten after the call (the index owns its content). Options: common omitted / a value of the array / a value absent from it; counts omitted / exact dict / exact dict plus absent categories with count 0; mapping "
    "omitted / injective / a permutation of the array's own codes / many-to-one (several values onto the common one, all values onto one); on the way back "
    "the default dtype, an explicit int64, an explicit fitted dtype, or a value mapping. Oracle: round trip equals "
    "the (mapped) input element for element and in shape; the produced index is well-formed (C07 predicate) and its "
    "dense content (independent reader) equals the mapped input; any exception is a violation (empty input with "
    "neither common nor mapping is excluded: documented ValueError). Non-trivial = at least 2 distinct values and "
    "(a non-default option or a negative or >= 256 value). Distinct by case content."
)
ASSUMPTIONS = [
    "workers run under RLIMIT_AS 4 GiB so that a giant bincount allocation surfaces as MemoryError",
    "value palettes skip the 2^24..2^30 band (no dtype boundary lives there; a regressed bincount would really "
    "allocate gigabytes per shard) and jump from 70000 to 2^31-1",
    "a mapping passed to from_array covers every input value and the given common value (documented requirement)",
]

PALETTES = [
    [0, 1, 2, 3, 4, 5], [-3, -2, -1, 0, 1, 2, 3], [254, 255, 256, 0, 1, 2], [65535, 65536, 0, 1, 3, 7],
    [2 ** 31 - 1, 2 ** 31, 2 ** 31 + 1, 0, 5, 6], [-(2 ** 31) - 1, -1, 0, 1, 2, 3],
    [2 ** 62, -(2 ** 62), 0, 1, 2, 3], [0, -1, 255, 256, 65536, -129, 128, 127, -128, 32768, -32769, 70000],
    [0, 1, 2, 3, 4, 5, 6, 7, 8, 9, 10, 11],
]


@st.composite
def cases(draw, tier):
    pal = list(draw(st.sampled_from(PALETTES)))
    cls = draw(st.sampled_from(["small", "dense", "sparse", "sparse", "empty", "small", "dense", "sparse", "sparse", "empty",
                                "runs", "runs"]))
    ndim = draw(st.sampled_from([1, 1, 2]))
    if cls == "empty":
        shape = draw(st.sampled_from([[0], [0, 3], [4, 0], [0, 0]])) if ndim == 2 else [0]
        if len(shape) == 1 and ndim == 2:
            shape = [0, 2]
        values, fill, cells = [], None, None
    elif cls == "runs":
        # a SORTED / grouped file: a few long runs of one value each, up to 2^17 cells (block-wise counting or
        # conversion sees a new largest value only in a later block)
        total = draw(st.sampled_from([300, 4096, 65536, 70000, 80000, 131072]))
        k = draw(st.integers(2, 6))
        vals = draw(st.permutations(pal))[:k]
        if draw(st.booleans()):
            vals = sorted(vals)
        cuts = sorted(draw(st.lists(st.integers(1, total - 1), min_size=k - 1, max_size=k - 1, unique=True)))
        if total > 70000 and draw(st.booleans()):
            # the first run alone fills more than one 65 536-cell block, the later (larger) values arrive after it
            k = draw(st.integers(2, 3))
            vals = sorted(vals[:k])
            first = draw(st.integers(65536, total - 2000))
            cuts = [first] if k == 2 else [first, first + draw(st.integers(1, total - first - 1))]
        lens = [b - a for a, b in zip([0] + cuts, cuts + [total])]
        shape = [total] if ndim == 1 else [total // 2, 2]
        values, fill, cells = None, None, None
        runs = [[v, n_] for v, n_ in zip(vals, lens)]
    elif cls == "sparse":
        n = draw(st.integers(80, 400 if tier == "thorough" else 240))
        c = draw(st.integers(1, 3)) if ndim == 2 else None
        if draw(st.integers(0, 7)) == 0:
            # batch-sized inputs: a row count that is an exact power of two (or one off), up to 2^17 rows
            n = draw(st.sampled_from([256, 1024, 4096, 65535, 65536, 65537, 131072]))
            c = None if c is None else 1
        shape = [n] if c is None else [n, c]
        size = n * (c or 1)
        d = draw(st.integers(5, min(12, len(pal))))
        vals = draw(st.permutations(pal))[:d]
        fill = vals[0]
        # D / (U / size) >= 100  <=>  U <= D * size / 100
        umax = max(d - 1, int(d * size / 100.0) - draw(st.integers(0, 2)))
        u = draw(st.integers(d - 1, max(d - 1, min(umax, 60))))
        pos = draw(st.lists(st.integers(0, size - 1), min_size=u, max_size=u, unique=True))
        cells = []
        for i, p in enumerate(pos):
            v = vals[1 + i] if i < d - 1 else draw(st.sampled_from(vals[1:]))
            cells.append([p, v])
        values = None
    else:
        n = draw(st.integers(1, 40))
        c = draw(st.integers(1, 4)) if ndim == 2 else None
        shape = [n] if c is None else [n, c]
        size = n * (c or 1)
        k = draw(st.integers(1, 4)) if cls == "small" else draw(st.integers(5, len(pal)))
        vals = draw(st.permutations(pal))[:k]
        skew = draw(st.sampled_from([0, 1, 4]))
        raw = draw(st.lists(st.integers(0, k * (1 + skew) - 1), min_size=size, max_size=size))
        values = [vals[x] if x < k else vals[0] for x in raw]
        if c is not None and draw(st.integers(0, 2)) == 0:
            # constant columns (a sub-variable nobody / everybody selected): every row holds one value there
            for col in draw(st.lists(st.integers(0, c - 1), min_size=1, max_size=c, unique=True)):
                v = draw(st.sampled_from(vals))
                for r in range(n):
                    values[r * c + col] = v
        fill, cells = None, None
    case = {"shape": shape, "values": values, "fill": fill, "cells": cells, "cls": cls}
    if cls == "runs":
        case["runs"] = runs
    present = sorted(set(flat_values(case)))
    outside = [v for v in pal + [9, -7, 300] if v not in present]
    ck = draw(st.sampled_from(["omitted", "present", "absent"]))
    if ck == "present" and present:
        case["common"] = draw(st.sampled_from(present))
    elif ck == "absent" or (not present):
        case["common"] = draw(st.sampled_from(outside))
    else:
        case["common"] = None
    case["counts"] = draw(st.booleans())
    # key order of the caller's counts dict: by value, most frequent first (a frequency table), first appearance, reversed
    case["counts_order"] = draw(st.sampled_from(["value", "frequency", "appearance", "reversed"]))
    # counts for the variable's whole category list: categories that do not occur are listed with count 0
    case["counts_extra"] = draw(st.lists(st.sampled_from(outside), unique=True, max_size=2)) if (
        case["counts"] and outside and draw(st.integers(0, 2)) == 0) else []
    mk = draw(st.sampled_from(["none", "none", "injective", "many", "onto_common", "all_onto_one", "permute"]))
    # the mapping covers every category the caller names: array values, the common value, and the counts' keys
    keys = sorted(set(present) | ({case["common"]} if case["common"] is not None else set())
                  | set(case["counts_extra"]))
    if mk == "none" or (not keys):
        case["mapping"] = None
    else:
        targets = [0, 1, 2, 3, -1, 255, 256, 70000, -40000, 5, 6, 7, 8, 9, 10, 11, 12, 13]
        if mk == "injective":
            t = draw(st.permutations(targets))[: len(keys)]
            m = list(zip(keys, t))
        elif mk == "permute":
            # a recode within the same code set (swap / rotation): raw and mapped codes share one domain
            m = list(zip(keys, draw(st.permutations(keys))))
        elif mk == "all_onto_one":
            t = draw(st.sampled_from(targets))
            m = [(k, t) for k in keys]
        else:
            nt = draw(st.integers(1, max(1, len(keys) - 1)))
            ts = draw(st.permutations(targets))[:nt]
            m = [(k, draw(st.sampled_from(ts))) for k in keys]
            if mk == "onto_common" and case["common"] is not None and len(keys) >= 3:
                ct = dict(m)[case["common"]]
                extra = draw(st.lists(st.sampled_from(keys), min_size=1, max_size=2))
                m = [(k, ct if k in extra else v) for k, v in m]
        case["mapping"] = [[k, v] for k, v in m]
    if cls == "empty" and draw(st.integers(0, 2)) == 0:
        # nothing to infer a common value from except the mapping: documented rule = the lowest mapped value
        case["common"] = None
        case["counts"], case["counts_extra"] = False, []
        mk = "for an empty array"
        ks = draw(st.lists(st.integers(-2, 6), min_size=1, max_size=3, unique=True))
        case["mapping"] = [[k, draw(st.sampled_from([0, 1, 5, -3, 256, 70000]))] for k in ks]
    case["mapkind"] = mk if case["mapping"] is not None else "none"
    # the FORM of the input array: element type (any integer dtype that holds the values) and memory layout
    case["in_dtype"] = draw(st.sampled_from(["int64", "int64", "narrow", "narrow_signed", "uint64", "int32"]))
    case["layout"] = draw(st.sampled_from(["C", "C", "F", "strided", "readonly", "list"]))
    case["back"] = draw(st.sampled_from(["default", "default", "int64", "fitted", "mapping"]))
    case["backshift"] = draw(st.integers(-5, 300))
    return case


def ordered_counts(flat, order):
    """The exact counts of the values of `flat` as a dict whose KEY ORDER is the caller's business."""
    seen = {}
    for v in flat:
        seen[v] = seen.get(v, 0) + 1
    keys = list(seen)  # first appearance
    if order == "value":
        keys = sorted(keys)
    elif order == "reversed":
        keys = sorted(keys, reverse=True)
    elif order == "frequency":
        keys = sorted(keys, key=lambda k: (-seen[k], k))
    return {k: seen[k] for k in keys}


def as_given(a, in_dtype, layout):
    """The same values as another integer dtype / memory layout (never changes a value)."""
    import numpy

    lo, hi = (int(a.min()), int(a.max())) if a.size else (0, 0)
    names = {"narrow": ["uint8", "int8", "uint16", "int16", "uint32", "int32", "uint64", "int64"],
             "narrow_signed": ["int8", "int16", "int32", "int64"], "uint64": ["uint64", "int64"],
             "int32": ["int32", "int64"], "int64": ["int64"]}[in_dtype]
    for name in names:
        ii = numpy.iinfo(name)
        if ii.min <= lo and hi <= ii.max:
            a = a.astype(name)
            break
    if layout == "F" and a.ndim == 2:
        a = numpy.asfortranarray(a)
    elif layout == "strided":
        big = numpy.zeros(tuple(2 * s for s in a.shape), dtype=a.dtype)
        view = big[tuple(slice(None, None, 2) for _ in a.shape)]
        view[...] = a
        a = view
    elif layout == "readonly":
        a = a.copy()
        a.setflags(write=False)
    return a


def flat_values(case):
    if case.get("runs"):
        size = 1
        for s_ in case["shape"]:
            size *= s_
        out = [v for v, n_ in case["runs"] for _ in range(n_)]
        return out[:size] + [case["runs"][-1][0]] * (size - len(out))
    if case["values"] is not None:
        return list(case["values"])
    size = 1
    for s in case["shape"]:
        size *= s
    out = [case["fill"]] * size
    for p, v in case["cells"]:
        out[p] = v
    return out


def check(case, rec):
    import numpy

    from catii import iindex
    from catii.iindexes import fit_dtype

    flat = flat_values(case)
    a = numpy.array(flat, dtype=numpy.int64).reshape(case["shape"])
    a = as_given(a, case.get("in_dtype", "int64"), case.get("layout", "C"))
    kwargs = {}
    if case["common"] is not None:
        kwargs["common"] = case["common"]
    present = sorted(set(flat))
    if case["counts"]:
        kwargs["counts"] = ordered_counts(flat, case.get("counts_order", "value"))
        for v in case.get("counts_extra", []):
            kwargs["counts"].setdefault(v, 0)
    m1 = None
    if case["mapping"] is not None:
        m1 = {k: v for k, v in case["mapping"]}
        kwargs["mapping"] = dict(m1)
    if a.size == 0 and case["common"] is None and not m1:
        return  # documented ValueError: nothing to infer a common value from
    given = a.tolist() if (case.get("layout") == "list" and a.size) else a  # an empty nested list has no shape
    snap = (a.tobytes(), dict(kwargs.get("counts") or {}), dict(kwargs.get("mapping") or {}))
    with libcall("from_array(%s %s array)" % (a.dtype, case.get("layout", "C"))):
        ix = iindex.from_array(given, **kwargs)
    if (a.tobytes(), dict(kwargs.get("counts") or {}), dict(kwargs.get("mapping") or {})) != snap:
        raise Violation("from_array modified its arguments", sig="from_array modified arguments")
    a = numpy.array(flat, dtype=numpy.int64).reshape(case["shape"])
    if isinstance(given, numpy.ndarray) and given.flags.writeable and given.size:
        # the index must own its content: the caller re-uses the input buffer afterwards
        given[...] = given.reshape(-1)[0]
    mapped = a if m1 is None else numpy.array([m1[x] for x in flat], dtype=numpy.int64).reshape(a.shape)
    if tuple(ix.shape) != a.shape:
        raise Violation("from_array: index shape %r, array shape %r" % (ix.shape, a.shape), sig="from_array shape")
    wellformed(ix, "from_array(%s, common=%r, counts=%s, mapping=%s)" % (
        case["cls"], case["common"], case["counts"], case["mapkind"]), "from_array")
    if a.size == 0 and case["common"] is None and m1 and ix.common != min(m1.values()):
        raise Violation("from_array(empty array, mapping=%r) chose common %r, documented: the lowest mapped value" % (
            m1, ix.common), sig="from_array empty + mapping common")
    if case["common"] is not None:
        want_common = case["common"] if m1 is None else m1[case["common"]]
        if ix.common != want_common:
            raise Violation("from_array(common=%r) produced common %r" % (case["common"], ix.common),
                            sig="from_array ignored the given common value")
    d = Q.dense_of(ix)
    if d.shape != mapped.shape or not numpy.array_equal(d, mapped):
        bad = numpy.argwhere(d != mapped)[0].tolist() if d.shape == mapped.shape else None
        raise Violation("from_array(%s path, mapping=%s): the index does not stand for the (mapped) input; first "
                        "difference at %s: index says %s, input %s" % (
                            case["cls"], case["mapkind"], bad,
                            None if bad is None else int(d[tuple(bad)]), None if bad is None else int(mapped[tuple(bad)])),
                        sig="from_array content differs (mapping=%s)" % case["mapkind"])
    back = case["back"]
    vals_in_index = sorted(set(mapped.reshape(-1).tolist()) | {ix.common})
    expect = mapped
    tkw = {}
    if back == "int64":
        tkw["dtype"] = numpy.int64
    elif back == "fitted":
        lo, hi = min(vals_in_index), max(vals_in_index)
        for name in ["uint8", "uint16", "uint32", "uint64", "int8", "int16", "int32", "int64"]:
            ii = numpy.iinfo(name)
            if ii.min <= lo and hi <= ii.max:
                tkw["dtype"] = numpy.dtype(name)
                break
    elif back == "mapping":
        m2 = {v: v + case["backshift"] for v in vals_in_index}
        if m2:
            tkw["mapping"] = dict(m2)
            expect = mapped + case["backshift"]
    with libcall("to_array(%s)" % back):
        out = ix.to_array(**tkw)
    if not isinstance(out, numpy.ndarray) or out.shape != a.shape:
        raise Violation("to_array(%s) returned shape %r for input shape %r" % (back, getattr(out, "shape", None), a.shape),
                        sig="to_array shape")
    if out.dtype.kind not in "iu" or not numpy.array_equal(out.astype(object), expect.astype(object)):
        raise Violation("round trip (%s path, common %r, counts %s, mapping %s, back %s) differs from the input: "
                        "dtype %s" % (case["cls"], case["common"], case["counts"], case["mapkind"], back, out.dtype),
                        sig="round trip differs (back=%s)" % back)
    rec.note("class=" + case["cls"], "ndim=%d" % a.ndim, "mapping=" + case["mapkind"], "back=" + back,
             "common=" + ("omitted" if case["common"] is None else "present" if case["common"] in present else "absent"),
             "counts=%s" % case["counts"])
    if len(present) >= 5 and a.size:
        common_final = ix.common
        unc = int((mapped != common_final).sum())
        ratio = unc / float(a.size)
        rec.note("strategy=where" if ratio == 0 or len(present) / ratio < 100 else "strategy=rowscan")
    nondefault = (case["common"] is not None or case["counts"] or m1 is not None or back != "default")
    special = any(v < 0 or v >= 256 for v in present)
    if len(present) >= 2 and (nondefault or special):
        rec.nontrivial()


SUBS = [Sub("roundtrip", check, strategy=cases, examples={"quick": 16000, "thorough": 400000})]
