"""C06 - index operations track NumPy on the dense array over any history (DESIGN.md 3, C06)."""
from .. import giant as G
from .. import machine as M
from ..core import Sub

PROPERTY = "C06"
LEVEL = "exploration"
RULE = (
    "Hypothesis rule-based state machine over up to 6 live (index, dense NumPy model) pairs: initial 1-D / 2-D / 3-D "
    "indexes (N in 0..12 rows, up to 4 columns, value palettes with negatives and 255/256/70000, common most "
    "frequent / rare / absent) built by an independent constructor; rules shift_common() / shift_common(v), append "
    "(fresh operand of 0..5 rows or another live index), update (incl. cells set to the common value), filtered, sliced "
    "(int | order list | None per axis), slices1d, reindexed (partial, many-to-one, onto the common, default mapping; "
    "copy / shift / assume_unique flags), collapsed (negatives, lists omitting present values), copy, column_stack "
    "(mix of 1-D / 2-D, commons, new_common, copy flag), union / intersection / difference_update (dict or index "
    "operand, None and empty values), observers get / items / to_dict (force=True) and common_rowids. After EVERY "
    "step every live index must stand for exactly its NumPy model (independent reader, and to_array(dtype=int)); "
    "operands other than the receiver must be byte-identical before and after; requested copies must not share "
    "memory. Evaluations = histories (up to 25 steps each; steps are reported separately). Non-trivial = a history "
    "with >= 3 mutating steps containing append-after-shift, update-after-append, a reindex that merges values, or "
    "a collapse whose precedence omits a present value. Distinct by the full operation list. giant: histories of 3..11 "
    "operations over indexes with 2^31-3 .. 2^32-1 rows and at most 8 listed rows per column (both ends and around "
    "2^31), with a SPARSE model {key: set(rows)}: append (giant + small, small + giant, giant + giant up to exactly "
    "2^32 rows), the three set updates, sliced, slices1d, copy, column_stack, reindexed - the operations whose cost does "
    "not depend on the row count; after every step every live index must hold exactly the model's entries (uint32, "
    "strictly increasing), shape, common value and size. Non-trivial = an append that shifts row ids beyond 2^31 plus "
    "another kind of operation. long_entries: an entry of 64..1025 (thorough 4097) consecutive or evenly spaced row "
    "ids (a category of a sorted file) updated in place (union / difference / intersection) with row ids at block "
    "boundaries (63/64, 255/256, 511/512, first, last), already listed or new; result compared with the array and the "
    "C07 predicate. collapsed_wide: C19's collapsed_output cases (hundreds / 65 536 columns, rows without any common cell)."
)
ASSUMPTIONS = [
    "index entries handed to the library are sorted unique uint32 arrays with int coordinates",
    "update() never assigns two values to one cell in one call; filtered(mask, n) gets n == mask.sum(); sliced() "
    "gets one duplicate-free in-range order per higher axis; union_update only adds rows that are currently common",
    "3-D indexes are used for slicing / slice iteration / copy only (the property's domain)",
]

EX = {"quick": 4800, "thorough": 200000}
STEPS = {"quick": 25, "thorough": 40}


def runner(sub, tier, seed, shard, nshards, rec):
    M.run_machine(sub, tier, seed, shard, nshards, rec, "C06", EX, STEPS)


SUBS = [
    Sub("histories", M.replay, runner=runner, examples=EX, weight=5),
    Sub("giant", G.check, strategy=G.histories, examples={"quick": 1500, "thorough": 60000}),
    Sub("merges", lambda case, rec: G.check_merges(case, rec), enumerate=G.enum_merges, exhaustive=True,
        shards={"quick": 4, "thorough": 8}),
    Sub("long_entries", lambda case, rec: G.check_long_entries(case, rec), enumerate=G.enum_long_entries, exhaustive=True,
        shards={"quick": 4, "thorough": 8}),
    Sub("collapsed_wide", lambda case, rec: _collapsed(case, rec), strategy=lambda tier: _collapsed_cases(tier),
        examples={"quick": 800, "thorough": 30000}, shards={"quick": 4, "thorough": 8}),
]


def _collapsed(case, rec):
    from . import c19

    return c19.check_collapsed(case, rec)


def _collapsed_cases(tier):
    from . import c19

    return c19.collapsed_cases(tier)
