"""C18 - array-cube-only statistics equal the per-cell textbook statistic (DESIGN.md section 3, C18)."""
import itertools
import math
import warnings

from hypothesis import strategies as st

from .. import cubes as Q
from ..core import Sub, Violation, libcall

PROPERTY = "C18"
LEVEL = "exploration"
RULE = (
    "Hypothesis array cubes (0..2 dims, N in 0..30, skewed categories so that cells of 0, 1, 2 and many rows all "
    "occur, optional 2-axis dimension) x statistic in {stddev, quantile, min, max, covariance, corrcoef} x facts of "
    "1..3 columns with per-column missing patterns (NaN-marked or (values, validity) with junk; float, int, and "
    "datetime64[D] with NaT for min/max) x weights in {None, float/int array, (values, validity)} x both policies; "
    "every case is evaluated in the NaN and the (values, validity) report format. Oracle per cell, rows by brute "
    "force: stddev = sqrt(sum w (x-mu_w)^2 / sum w * n/(n-1)) (unweighted: ddof=1), missing also for < 2 valid rows; "
    "unweighted quantile by linear interpolation; weighted quantile: missing rule, invariance under w -> c*w "
    "(c in {0.5, 3, 2^-40, 2^20}), result within [min, max] of the valid values; min / max exact; covariance = weighted "
    "covariance (numpy.cov aweights formula written out) over complete rows (ignore) or per column pair (propagate); "
    "correlation = covariance normalised. Entries that are mathematically undefined (fewer than 2 usable rows, "
    "zero variance, zero weight sum) are not compared. Both formats must give the same missing set and values and "
    "a valid cell never holds NaN/inf. Non-trivial = a cell with exactly one valid row, or columns with different "
    "missing patterns, or (weighted quantile) a missing fact in a cell that also has valid rows. Distinct by content."
)
ASSUMPTIONS = [
    "weights for stddev / quantile / covariance are arrays (their docstrings require arrays), strictly positive for "
    "covariance and weighted quantile, >= 0 for stddev (cells whose valid weights sum to zero are not compared)",
    "datetime64 facts use NaT (or a separate validity array) as the missing marker",
    "correlation is unweighted (the property claims only the unweighted correlation)",
]

AGGS = ["stddev", "quantile", "min", "max", "covariance", "corrcoef"]


@st.composite
def cases(draw, tier):
    if draw(st.integers(0, 24)) == 0:
        # hundreds / thousands of rows, many categories, up to ten fact columns (stored as a recipe)
        spec = draw(Q.large_specs(["stddev", "quantile", "min", "max", "covariance"], max_n=4096))
        agg = spec["agg"]
        f = spec["fact"]
        f["dtype"] = "float"
        if agg in ("min", "max"):
            f["K"] = None
            spec["weights"] = None
        elif agg == "covariance":
            f["K"] = f["K"] or 2
        if spec["weights"] is not None and spec["weights"]["dtype"] == "int":
            spec["weights"] = None
        if spec["weights"] is not None:
            spec["weights"]["zero_ok"] = agg == "stddev"  # as in the small cases (see ASSUMPTIONS)
        spec["prob"] = draw(st.sampled_from([0.0, 1.0, 0.5, 0.25, 0.9]))
        spec["ignore"] = draw(st.booleans())
        spec["xdtypes"] = ["int64"] * len(spec["dims"])
        spec["args"] = draw(st.sampled_from(["fresh", "shared"]))
        spec["prior_weights"] = None
        return spec
    bigcase = draw(st.integers(0, 7)) == 0
    if bigcase:
        # boundary extents: category ids at the top of / beyond the narrow coordinate dtypes the array cube
        # works in (uint8 up to 255 cells, uint16 up to 65535), alone or next to a second small dimension
        spec = draw(Q.cube_specs(max_nd=draw(st.sampled_from([1, 1, 2])), min_nd=1, max_n=20, min_n=4, big_ok=True,
                                 big_extents=[255, 255, 256, 257, 65535, 65535, 65536], tails=((), (), (2,))))
    else:
        spec = draw(Q.cube_specs(max_nd=2, min_nd=0, max_n=30, tails=((), (), (), (2,))))
    N = spec["N"]
    agg = draw(st.sampled_from(AGGS))
    spec["agg"] = agg
    dyadic = draw(st.integers(0, 3)) != 0
    if agg in ("min", "max"):
        f = draw(Q.fact_specs(N, max_k=0, dyadic=dyadic))
        if draw(st.integers(0, 3)) == 0:
            f = dict(f, dtype="datetime", dyadic=True, as_list=False,
                     values=[int(v) % 40000 for v in f["values"]])
        spec["fact"] = f
        spec["weights"] = None
    elif agg in ("covariance", "corrcoef"):
        f = draw(Q.fact_specs(N, dyadic=dyadic))
        K = draw(st.sampled_from([2, 2, 3]))
        size = N * K

        def fit(lst, fill):
            lst = list(lst)
            while len(lst) < size:
                lst = lst + lst + [fill]
            return lst[:size]

        f = dict(f, K=K, values=fit(f["values"], 1), valid=fit(f["valid"], True), junk=fit(f["junk"], 0))
        extra_valid = draw(st.lists(st.integers(0, 7).map(lambda x: x > 0), min_size=size, max_size=size))
        f["valid"] = [a and b for a, b in zip(f["valid"], extra_valid)]
        spec["fact"] = f
        spec["weights"] = None if agg == "corrcoef" else draw(
            Q.weight_specs(N, scalar_ok=False, zero_ok=False))
    else:
        spec["fact"] = draw(Q.fact_specs(N, dyadic=dyadic, magnitudes=True))
        if bigcase and spec["fact"]["K"] is None and N:
            # several fact columns: per-column work multiplies the cell numbers
            K = draw(st.sampled_from([2, 3]))
            f = spec["fact"]
            spec["fact"] = dict(f, K=K, values=(f["values"] * K)[: N * K], valid=(f["valid"] * K)[: N * K],
                                junk=(f["junk"] * K)[: N * K])
        spec["weights"] = draw(Q.weight_specs(N, scalar_ok=False, zero_ok=(agg == "stddev")))
    spec["prob"] = draw(st.one_of(st.sampled_from([0.0, 1.0, 0.5, 0.25, 0.75]),
                                  st.floats(0.0, 1.0, allow_nan=False)))
    spec["ignore"] = draw(st.booleans())
    spec["xdtypes"] = draw(st.lists(st.sampled_from(Q.INT_DTYPES), min_size=len(spec["dims"]),
                                    max_size=len(spec["dims"])))
    # fresh fact / weight objects per request, or one set that serves every request of the case (after having served
    # a standard deviation first), as a caller computing several statistics of one variable does
    spec["args"] = draw(st.sampled_from(["fresh", "shared"]))
    spec["prior_weights"] = draw(Q.weight_specs(N, scalar_ok=False, zero_ok=True))  # for that earlier stddev
    return spec


def lin_quantile(xs, p):
    xs = sorted(xs)
    h = (len(xs) - 1) * p
    lo = int(math.floor(h))
    hi = min(lo + 1, len(xs) - 1)
    return xs[lo] + (h - lo) * (xs[hi] - xs[lo])


def wcov(x, y, w):
    sw = math.fsum(w)
    mx = math.fsum(a * b for a, b in zip(w, x)) / sw
    my = math.fsum(a * b for a, b in zip(w, y)) / sw
    fact = sw - math.fsum(a * a for a in w) / sw
    if fact <= 0:
        return None
    return math.fsum(a * (b - mx) * (c - my) for a, b, c in zip(w, x, y)) / fact


def fact_for(case):
    import numpy

    f = case["fact"]
    N = case["N"]
    if f["dtype"] != "datetime":
        return Q.fact_arrays(f, N)
    days = numpy.array(f["values"], dtype="int64")
    valid = numpy.array(f["valid"], dtype=bool)
    vals = days.astype("datetime64[D]")
    if f["form"] == "nan":
        passed = vals.copy()
        passed[~valid] = numpy.datetime64("NaT")
        arg = passed
    else:
        passed = vals.copy()
        passed[~valid] = numpy.datetime64("2001-01-01")
        arg = (passed, valid.copy())
    return arg, days.astype(float), valid


def call(case, dense, shape_arg, rma, weights_scale=None, shared=None):
    import numpy

    from catii import xcube

    N = case["N"]
    if shared is not None:
        farg, warg = shared  # the caller's one set of fact / weight objects, used for every request
    else:
        farg, _, _ = fact_for(case)
        warg, _, _ = Q.weight_arrays(case["weights"], N)
    if weights_scale is not None and warg is not None:
        if isinstance(warg, tuple):
            warg = (numpy.asarray(warg[0], dtype=float) * weights_scale, warg[1])
        else:
            warg = numpy.asarray(warg, dtype=float) * weights_scale
    arrs = []
    for i, a in enumerate(dense):
        dt = case["xdtypes"][i]
        if dt == "bool":
            dt = "bool" if (not a.size or int(a.max()) <= 1) else "uint8"
        if dt != "bool" and a.size and int(a.max()) > numpy.iinfo(dt).max:
            dt = "int64"
        arrs.append(a.astype(dt))
    if case["fact"]["dtype"] == "datetime":
        if rma == "nan":
            ra = numpy.datetime64("NaT")
        else:
            ra = (numpy.datetime64("1970-01-01"), False)
    else:
        ra = Q.rma_arg(rma)
    cube = xcube(arrs, shape_arg)
    agg = case["agg"]
    with warnings.catch_warnings():
        warnings.simplefilter("ignore")
        if agg in ("min", "max"):
            res = getattr(cube, agg)(farg, ignore_missing=case["ignore"], return_missing_as=ra)
        elif agg == "quantile":
            res = cube.quantile(farg, case["prob"], warg, ignore_missing=case["ignore"], return_missing_as=ra)
        else:
            res = getattr(cube, agg)(farg, warg, ignore_missing=case["ignore"], return_missing_as=ra)
    if case["fact"]["dtype"] == "datetime":
        # normalise datetimes to float days; NaT -> NaN
        if isinstance(res, tuple):
            v, valid = res
            v = numpy.asarray(v).astype("datetime64[D]").astype("int64").astype(float)
            return (v, valid)
        r = numpy.asarray(res)
        nat = numpy.isnat(r)
        out = r.astype("datetime64[D]").astype("int64").astype(float)
        out[nat] = float("nan")
        return out
    return res


def check(case, rec):
    import numpy

    if case.get("recipe"):
        rec.note("large recipe case (N=%d)" % case["N"], "large rows " + str(case.get("rows")))
    case = Q.expand(case)
    dense = Q.dense_dims(case)
    N = case["N"]
    nd = len(dense)
    agg = case["agg"]
    ignore = case["ignore"]
    p = case["prob"]
    shape_arg, full = Q.cube_shape(case, dense)
    if shape_arg is None and (N == 0 or any(a.size == 0 for a in dense)):
        shape_arg = full
    used = full if shape_arg is not None else tuple(int(a.max()) + 1 for a in dense)
    _, fvals, fvalid = fact_for(case)
    _, w, wvalid = Q.weight_arrays(case["weights"], N)
    weighted = case["weights"] is not None
    K = case["fact"]["K"]
    what = "xcube.%s(ignore_missing=%s%s)" % (agg, ignore, ", weighted" if weighted else "")

    shared = None
    if case.get("args") == "shared":
        shared = (fact_for(case)[0], Q.weight_arrays(case["weights"], N)[0])
        rec.note("one set of argument objects for all requests")
        if agg != "stddev" and case["fact"]["dtype"] != "datetime" and (K is not None or agg not in ("covariance", "corrcoef")):
            # ... and they have served another statistic before (a weighted standard deviation)
            with libcall("xcube.stddev on the same fact object beforehand"):
                prior_w = shared[1] if shared[1] is not None else Q.weight_arrays(case.get("prior_weights"), N)[0]
                call(dict(case, agg="stddev"), dense, shape_arg, "nan", shared=(shared[0], prior_w))
    with libcall(what + " NaN format"):
        res_nan = call(case, dense, shape_arg, "nan", shared=shared)
    with libcall(what + " pair format"):
        res_tup = call(case, dense, shape_arg, ["tuple", 0], shared=shared)
    nv, nm = Q.normalise(res_nan, "nan", what)
    tv, tm = Q.normalise(res_tup, ["tuple", 0], what)
    matrix = agg in ("covariance", "corrcoef")
    fact_axes = (K, K) if matrix else (() if K is None else (K,))
    scaffold = Q.scaffold_shape(case)
    want_shape = tuple(scaffold) + tuple(used) + fact_axes
    if nd == 0 and not matrix and nv.size == 1 and K is None:
        nv, nm, tv, tm = (x.reshape(()) for x in (nv, nm, tv, tm))
    elif nd == 0 and nv.shape == (1,) + fact_axes:
        nv, nm, tv, tm = (x.reshape(fact_axes) for x in (nv, nm, tv, tm))
    if nv.shape != want_shape or tv.shape != want_shape:
        raise Violation("%s: result shape %s / %s, expected %s" % (what, nv.shape, tv.shape, want_shape),
                        sig="xcube.%s shape" % agg)
    # ---- per-cell oracle
    exp_m = numpy.ones(want_shape, dtype=bool)       # default: no rows -> missing
    cmp_m = numpy.ones(want_shape, dtype=bool)       # compare missingness here
    exp_v = numpy.zeros(want_shape, dtype=float)
    cmp_v = numpy.zeros(want_shape, dtype=bool)      # compare values here
    tol_v = numpy.zeros(want_shape, dtype=float)     # extra per-cell tolerance (conditioning of the statistic)
    lo_v = numpy.full(want_shape, -numpy.inf)
    hi_v = numpy.full(want_shape, numpy.inf)
    flags = set()
    tails = [d.shape[1:] for d in dense]
    cols_k = [None] if K is None else list(range(K))
    wl, wvl = w.tolist(), wvalid.tolist()
    for pos in itertools.product(*[itertools.product(*[range(e) for e in t]) for t in tails]):
        sub = [d[(slice(None),) + pp] for d, pp in zip(dense, pos)]
        flat = tuple(x for pp in pos for x in pp)
        for cell, rows in Q.group_rows(sub, N).items():
            if any(c >= u for c, u in zip(cell, used)):
                continue
            base = flat + cell
            if matrix:
                fv = fvalid
                col_ok = [[bool(fv[r, k]) and wvl[r] for r in rows] for k in range(K)]
                complete = [r for i, r in enumerate(rows) if all(col_ok[k][i] for k in range(K))]
                for i in range(K):
                    for j in range(K):
                        idx = base + (i, j)
                        if ignore:
                            use = complete
                            if len(use) == 0:
                                exp_m[idx] = True
                                continue
                            if len(use) < 2:
                                cmp_m[idx] = False
                                flags.add("one complete row")
                                continue
                        else:
                            if not (all(col_ok[i]) and all(col_ok[j])):
                                exp_m[idx] = True
                                if any(col_ok[i]) or any(col_ok[j]):
                                    flags.add("partly missing column")
                                continue
                            use = rows
                            if len(use) < 2:
                                cmp_m[idx] = False
                                continue
                        x = [float(fvals[r, i]) for r in use]
                        y = [float(fvals[r, j]) for r in use]
                        ww = [wl[r] for r in use]
                        if not ignore and not all(all(c) for c in col_ok):
                            # numpy.cov drops nothing: other columns' NaN do not touch this pair,
                            # but a missing weight poisons everything (handled by col_ok above)
                            pass
                        c = wcov(x, y, ww)
                        if c is None:
                            cmp_m[idx] = False
                            continue
                        if agg == "corrcoef":
                            # correlation is scale invariant: normalise each column by its magnitude first, so that
                            # tiny (subnormal) variances do not make the ORACLE imprecise
                            sx = max(abs(t) for t in x)
                            sy = max(abs(t) for t in y)
                            rvx, rvy = wcov(x, x, ww), wcov(y, y, ww)
                            if sx == 0 or sy == 0 or not rvx or not rvy or rvx < 1e-280 or rvy < 1e-280:
                                # zero variance, or a variance that underflows in float64: undefined / ill-conditioned
                                cmp_m[idx] = False
                                continue
                            x = [t / sx for t in x]
                            y = [t / sy for t in y]
                            sx = sy = 1.0
                            c = wcov(x, y, ww)
                            vx, vy = wcov(x, x, ww), wcov(y, y, ww)
                            # zero variance: undefined; variance at rounding level relative to the
                            # magnitude of the data: ill-conditioned, "within rounding" says nothing
                            if (not vx or not vy or vx <= 1e-18 * sx * sx or vy <= 1e-18 * sy * sy
                                    or math.sqrt(vx) * math.sqrt(vy) == 0):
                                cmp_m[idx] = False
                                continue
                            c = c / (math.sqrt(vx) * math.sqrt(vy))
                            if i == j:
                                c = 1.0
                        exp_m[idx] = False
                        exp_v[idx] = c
                        cmp_v[idx] = True
                if len({tuple(c) for c in col_ok}) > 1:
                    flags.add("columns with different missing patterns")
                continue
            for k in cols_k:
                idx = base + (() if k is None else (k,))
                fvk = fvalid if k is None else fvalid[:, k]
                fxk = fvals if k is None else fvals[:, k]
                good = [r for r in rows if wvl[r] and fvk[r]]
                nbad = len(rows) - len(good)
                m = len(good) == 0 or (not ignore and nbad > 0)
                xs = [float(fxk[r]) for r in good]
                ws = [wl[r] for r in good]
                if len(good) == 1:
                    flags.add("cell with exactly one valid row")
                if agg == "stddev":
                    if len(good) < 2:
                        m = True
                    if not m:
                        sw = math.fsum(ws)
                        if sw <= 0:
                            cmp_m[idx] = False
                            continue
                        mu = math.fsum(a * b for a, b in zip(ws, xs)) / sw
                        var = math.fsum(a * (b - mu) ** 2 for a, b in zip(ws, xs)) / sw
                        n = len(good)
                        exp_v[idx] = math.sqrt(var * n / (n - 1.0))
                        cmp_v[idx] = True
                        # conditioning: a deviation is computed from a rounded mean, so a sound (two-pass)
                        # implementation is off by about (eps * magnitude)^2 / sigma; a one-pass "sum of squares
                        # minus mean squared" is off by eps * magnitude^2 / sigma and must NOT pass
                        mag = max(abs(t) for t in xs)
                        e_ = 2.3e-16 * mag
                        tol_v[idx] = 1e-12 * mag + (200.0 * e_ * e_ / exp_v[idx] if exp_v[idx] > 0 else 0.0)
                elif agg == "quantile":
                    if not m:
                        if weighted:
                            if math.fsum(ws) <= 0:
                                cmp_m[idx] = False
                                continue
                            lo_v[idx], hi_v[idx] = min(xs), max(xs)
                        else:
                            exp_v[idx] = lin_quantile(xs, p)
                            cmp_v[idx] = True
                    if weighted and good and nbad:
                        flags.add("weighted quantile: missing value in a populated cell")
                elif agg in ("min", "max"):
                    if not m:
                        exp_v[idx] = min(xs) if agg == "min" else max(xs)
                        cmp_v[idx] = True
                exp_m[idx] = m
            if K is not None and K >= 2:
                pats = {tuple(bool(fvalid[r, k]) for r in rows) for k in range(K)}
                if len(pats) > 1:
                    flags.add("columns with different missing patterns")

    # ---- the two report formats agree (except where the statistic is mathematically undefined)
    dis = cmp_m & (nm != tm)
    if dis.any():
        idx = tuple(int(x) for x in numpy.argwhere(dis)[0])
        raise Violation("%s: NaN format says cell %s is %s, pair format says %s" % (
            what, idx, "missing" if nm[idx] else "valid", "missing" if tm[idx] else "valid (value %r)" % tv[idx]),
            sig="xcube.%s formats disagree on missing" % agg)
    raw_t = numpy.asarray(res_tup[0], dtype=float).reshape(want_shape)
    if not numpy.all(numpy.isfinite(raw_t[~tm & cmp_m])):
        raise Violation("%s: a cell reported valid holds NaN/inf" % what, sig="xcube.%s valid cell not finite" % agg)
    both = ~nm & ~tm & cmp_m
    if not numpy.array_equal(nv[both], tv[both]):
        raise Violation("%s: values differ between the two formats" % what, sig="xcube.%s formats disagree on values" % agg)

    bad = cmp_m & (nm != exp_m)
    if bad.any():
        idx = tuple(int(x) for x in numpy.argwhere(bad)[0])
        raise Violation("%s: cell %s is reported %s, the rule says %s" % (
            what, idx, "missing" if nm[idx] else "valid (%r)" % nv[idx], "missing" if exp_m[idx] else
            "valid (%r)" % exp_v[idx]), sig="xcube.%s missing rule%s" % (agg, " (weighted)" if weighted else ""))
    sel = cmp_v & ~exp_m & ~nm
    scale = max(1.0, float(numpy.abs(fvals).max()) if fvals.size else 1.0)
    tol = 1e-9 * (scale * scale if matrix and agg == "covariance" else scale)
    diff = numpy.abs(nv[sel] - exp_v[sel])
    if agg == "stddev":
        allowed = tol_v[sel] + 1e-9 * numpy.abs(exp_v[sel])
    else:
        allowed = tol + 1e-9 * numpy.abs(exp_v[sel])
    if (diff > allowed).any():
        diff = numpy.where(diff > allowed, diff, 0.0)
        i = int(numpy.argmax(diff))
        raise Violation("%s: a cell holds %r, the textbook statistic is %r" % (
            what, float(nv[sel][i]), float(exp_v[sel][i])), sig="xcube.%s value%s" % (agg, " (weighted)" if weighted else ""))
    if agg == "quantile" and weighted:
        ok = ~nm & ~exp_m & cmp_m
        if ((nv[ok] < lo_v[ok] - tol) | (nv[ok] > hi_v[ok] + tol)).any():
            raise Violation("%s: weighted quantile outside [min, max] of the cell's valid values" % what,
                            sig="weighted quantile out of range")
        for c in (0.5, 3.0, 2.0 ** -40, 2.0 ** 20):
            with libcall(what + " with weights scaled by %s" % c):
                sv, sm = Q.normalise(call(case, dense, shape_arg, "nan", weights_scale=c), "nan", what)
            sv, sm = sv.reshape(want_shape), sm.reshape(want_shape)
            if not numpy.array_equal(sm, nm) or not numpy.allclose(sv[~nm], nv[~nm], rtol=1e-9, atol=tol):
                raise Violation("%s: result changes when all weights are multiplied by %s" % (what, c),
                                sig="weighted quantile not scale invariant")
    if case["fact"].get("mode", "plain") != "plain":
        rec.note("fact mode=" + case["fact"]["mode"])
    rec.note("agg=" + agg + ("/weighted" if weighted else ""), "nd=%d" % nd, "ignore=%s" % ignore,
             "fact=%s/%s/K=%s" % (case["fact"]["dtype"], case["fact"]["form"], K))
    for fl in flags:
        rec.note(fl)
    if any(d.get("big") for d in case["dims"]):
        rec.note("boundary extent")
    if flags & {"cell with exactly one valid row", "columns with different missing patterns",
                "weighted quantile: missing value in a populated cell", "partly missing column"}:
        rec.nontrivial()


SUBS = [Sub("stats", check, strategy=cases, examples={"quick": 6000, "thorough": 200000})]
