"""C16 - pooled evaluation is schedule-independent (DESIGN.md section 3, C16)."""
import os
import sys
import warnings

from hypothesis import strategies as st

from .. import build
from .. import cubes as Q
from ..core import Sub, Violation, libcall
from ..detpool import DetPool
from . import c17

PROPERTY = "C16"
LEVEL = "exploration"
RULE = (
    "Hypothesis cubes with 3..12 sub-cubes (one or two multi-axis dimensions), N <= 8 rows, both cube types, 1..4 "
    "aggregate-function objects (count / valid_count / sum / mean, plus stddev, quantile, min, max, covariance, "
    "corrcoef on the array cube), cube.parallel forced on, pool sizes 1..16. det: the thread pool is replaced by "
    "DetPool, which runs the worker tasks on real threads of which exactly one is runnable, switching only at "
    "bytecode boundaries inside catii code according to a Hypothesis-drawn schedule (a priority order plus up to 6 "
    "(global step, victim) pre-emptions, or a seeded per-opcode switch probability of 0.1..50 %, or a 'stores' schedule "
    "that switches with 10..70 % probability right before every opcode writing an attribute / item / global and rarely "
    "elsewhere - races need a switch between two writes). real: the real ThreadPool "
    "under sys.setswitchinterval(1e-6), 40 repetitions per case. In three cases of seven the cube under test has a past: an earlier pooled evaluation aborted by the "
    "caller's check_interrupt callback at consultation 0/1/2/5 and caught. Oracle: the pooled run emits no warning the serial run does not emit (NumPy's error state is per thread), and every output array is bit-for-bit (bytes, "
    "dtype, shape) the serial result of a fresh twin cube and fresh function objects. Non-trivial (det) = at least "
    "2 workers alive and at least one pre-emption actually taken; (real) = pool size >= 2 with >= 3 sub-cubes. "
    "det_large / real_large: the same with 1 100..4 200 rows (stored as a recipe) so that size thresholds inside the "
    "aggregate functions (buffers, fast paths) are crossed. Distinct by (case, schedule). 'Every interleaving' is sampled, not enumerated; NumPy C calls are atomic steps "
    "for DetPool."
)
ASSUMPTIONS = [
    "catii creates its pool through multiprocessing.pool.ThreadPool (ccube) / xcube.pool_class; if the working tree "
    "stops doing so the DetPool part reports 'not engaged' in the class histogram and the real-thread runs decide",
    "DetPool schedules map()/starmap(); asynchronous pool entry points are delegated to a real ThreadPool",
]

TAILS1 = [(3,), (4,), (5,), (6,), (2, 2), (3, 2), (2, 3), (4, 2), (3, 3), (2, 4)]


@st.composite
def cases(draw, tier, mode):
    N = draw(st.integers(1, 8))
    d0 = draw(Q.dim_specs(N, TAILS1))
    dims = [d0]
    scaffold = 1
    for e in d0["tail"]:
        scaffold *= e
    if draw(st.booleans()):
        t2 = [t for t in [(), (), (2,), (3,)] if scaffold * (t[0] if t else 1) <= 12]
        dims.append(draw(Q.dim_specs(N, t2)))
    if draw(st.booleans()):
        dims.reverse()
    alias = False
    if scaffold * scaffold <= 16 and draw(st.integers(0, 5)) == 0:
        dims = [d0, dict(d0)]  # an item-by-item table: the very same index object serves as both dimensions
        alias = True
    case = {"N": N, "dims": dims, "alias": alias, "shape_mode": draw(st.sampled_from(["exact", "padded", "inferred"])),
            "pads": [1] * len(dims), "kind": draw(st.sampled_from(["ccube", "xcube"]))}
    f = draw(Q.fact_specs(N, dtypes=("float",)))
    case["fact"] = f
    case["weights"] = draw(Q.weight_specs(N, scalar_ok=False, zero_ok=False, kinds=("none", "array")))
    n = draw(st.integers(1, 4))
    aggs = c17.CAGGS if case["kind"] == "ccube" else c17.XAGGS
    case["funcs"] = [{"agg": draw(st.sampled_from(aggs)), "ignore": draw(st.booleans()),
                      "rma": draw(st.sampled_from(["nan", ["tuple", 0], "plain"])),
                      "prob": draw(st.sampled_from([0.0, 0.5, 1.0])), "weighted": draw(st.booleans()), "tracing": draw(st.sampled_from([None, True, False]))}
                     for _ in range(n)]
    if n >= 2 and draw(st.integers(0, 2)) == 0:
        # several parameterisations of ONE aggregate computed together (three quartiles, weighted and unweighted sum...)
        for f in case["funcs"][1:]:
            f["agg"] = case["funcs"][0]["agg"]
    case["poolsize"] = draw(st.one_of(st.integers(2, 4), st.integers(2, 16), st.integers(1, 16)))
    # the cube under test may have a past: an earlier pooled evaluation that the caller's check_interrupt callback
    # aborted at its k-th consultation (the caller caught the exception and carries on with the same cube)
    case["prior_interrupt"] = draw(st.sampled_from([None, None, None, 0, 1, 2, 5]))
    # ... or an earlier COMPLETE pooled evaluation followed by an in-place edit of one of its index dimensions
    case["edited"] = draw(st.integers(0, 5)) == 0
    if mode == "det":
        prio = draw(st.permutations(list(range(16))))
        which = draw(st.integers(0, 4))
        if which == 0:
            case["schedule"] = {"kind": "random", "prio": prio,
                                "prob_per_mille": draw(st.one_of(st.integers(1, 60), st.integers(60, 500))),
                                "seed": draw(st.integers(0, 10 ** 6))}
        elif which <= 2:
            case["schedule"] = {"kind": "stores", "prio": prio, "store_per_mille": draw(st.integers(100, 700)),
                                "prob_per_mille": draw(st.integers(0, 20)), "seed": draw(st.integers(0, 10 ** 6))}
        else:
            pts = draw(st.lists(st.tuples(st.integers(1, 6000), st.integers(0, 15)), max_size=6))
            case["schedule"] = {"kind": "preempt", "prio": prio, "points": [list(p) for p in pts]}
    else:
        case["schedule"] = {"kind": "real", "reps": 40}
    return case


def expand_large(case):
    """Large cases are stored as recipes (thousands of rows would bloat replay files); expand them here."""
    if not case.get("large"):
        return case
    N = case["N"]
    a, b, c = case["large"]
    case = dict(case)
    dims = []
    for j, d in enumerate(case["dims"]):
        size = N
        for e in d["tail"]:
            size *= e
        ext = d["extent"]
        data = [((i * (a + j)) // (1 + (i % (b + 2))) + i // (c + 3)) % ext for i in range(size)]
        dims.append(dict(d, data=data))
    case["dims"] = dims
    f = dict(case["fact"])
    K = f["K"] or 1
    f["values"] = [((i * 7 + a) % 41) - 20 for i in range(N * K)]
    f["valid"] = [((i + b) % 11) != 0 for i in range(N * K)]
    f["junk"] = [i % 3 for i in range(N * K)]
    case["fact"] = f
    if case["weights"] is not None:
        w = dict(case["weights"])
        w["values"] = [512 * (1 + (i + c) % 4) for i in range(N)]
        w["valid"] = [((i + a) % 13) != 0 for i in range(N)]
        w["junk"] = [i % 3 for i in range(N)]
        case["weights"] = w
    return case


@st.composite
def large_cases(draw, tier, mode):
    """A few thousand rows: size thresholds inside the aggregate functions (buffers, fast paths) are crossed."""
    N = draw(st.sampled_from([1100, 2100, 2500, 4200]))
    tail = draw(st.sampled_from([(3,), (4,), (2, 2), (6,)]))
    dims = [{"tail": list(tail), "extent": draw(st.integers(2, 3)), "common": draw(st.integers(0, 2)), "big": False}]
    if draw(st.booleans()):
        dims.append({"tail": [], "extent": 2, "common": draw(st.integers(0, 1)), "big": False})
    case = {"N": N, "dims": dims, "shape_mode": "exact", "pads": [1] * len(dims),
            "kind": draw(st.sampled_from(["ccube", "xcube"])),
            "large": [draw(st.integers(1, 9)), draw(st.integers(0, 9)), draw(st.integers(0, 9))]}
    case["fact"] = {"K": draw(st.sampled_from([None, None, 2])), "dtype": "float",
                    "form": draw(st.sampled_from(["nan", "tuple"])), "as_list": False, "dyadic": True}
    case["weights"] = draw(st.sampled_from([None, {"kind": "array", "dtype": "float", "form": "tuple",
                                                    "as_list": False, "rough": False}]))
    aggs = c17.CAGGS if case["kind"] == "ccube" else c17.XAGGS
    case["funcs"] = [{"agg": draw(st.sampled_from(aggs)), "ignore": draw(st.booleans()),
                      "rma": draw(st.sampled_from(["nan", ["tuple", 0]])), "prob": 0.5,
                      "weighted": draw(st.booleans()), "tracing": draw(st.sampled_from([None, True, False]))} for _ in range(draw(st.integers(1, 3)))]
    case["poolsize"] = draw(st.integers(2, 6))
    if mode == "det":
        which = draw(st.integers(0, 2))
        if which == 0:
            case["schedule"] = {"kind": "random", "prio": draw(st.permutations(list(range(16)))),
                                "prob_per_mille": draw(st.integers(5, 80)), "seed": draw(st.integers(0, 10 ** 6))}
        elif which == 1:
            case["schedule"] = {"kind": "stores", "prio": draw(st.permutations(list(range(16)))),
                                "store_per_mille": draw(st.integers(100, 700)),
                                "prob_per_mille": draw(st.integers(0, 20)), "seed": draw(st.integers(0, 10 ** 6))}
        else:
            pts = draw(st.lists(st.tuples(st.integers(1, 20000), st.integers(0, 15)), min_size=3, max_size=12))
            case["schedule"] = {"kind": "preempt", "prio": draw(st.permutations(list(range(16)))),
                                "points": [list(p) for p in pts]}
    else:
        case["schedule"] = {"kind": "real", "reps": 25}
    return case


def build_call(case):
    """Returns a function making (cube, function objects) afresh."""
    import numpy

    case = expand_large(case)

    from catii import ccube, xcube

    kind = case["kind"]
    N = case["N"]
    dense = Q.dense_dims(case)
    shape_arg, full = Q.cube_shape(case, dense)
    commons = [d["common"] for d in case["dims"]]
    fspec = dict(case["fact"])
    funcs = [dict(f) for f in case["funcs"]]
    for f in funcs:
        if f["agg"] in ("covariance", "corrcoef") and (fspec["K"] or 0) < 2:
            f["agg"] = "sum"
        if f["agg"] in ("min", "max") and fspec["K"] is not None:
            f["agg"] = "mean"
        if f["agg"] == "corrcoef":
            f["weighted"] = False

    def fresh():
        farg, _, _ = Q.fact_arrays(fspec, N)
        warg, _, _ = Q.weight_arrays(case["weights"], N)
        if kind == "ccube":
            dims_ = [Q.build_index(a, c) for a, c in zip(dense, commons)]
        else:
            dims_ = [a.copy() for a in dense]
        if case.get("alias") and len(dims_) == 2:
            dims_[1] = dims_[0]
        cube = (ccube if kind == "ccube" else xcube)(dims_, shape_arg)
        return cube, [c17.make_func(kind, f, farg, warg) for f in funcs]

    return fresh, funcs


class _Stop(Exception):
    pass


def give_it_a_past(cube, funcs, k, poolsize):
    """An earlier pooled evaluation of `cube`, aborted by check_interrupt at consultation k and caught by the caller."""
    import threading

    seen = [0]
    lock = threading.Lock()

    def callback():
        with lock:
            n = seen[0]
            seen[0] += 1
        if n == k:
            raise _Stop()

    cube.check_interrupt = callback
    cube.parallel = True
    cube.poolsize = poolsize
    try:
        cube.calculate(funcs)
    except _Stop:
        pass
    finally:
        cube.check_interrupt = None
        build.reap_real_pools()
    return seen[0] > k


def edit_in_place(cube, case):
    """Move one row of a multi-column index dimension from one listed category to another one listed in the same
    column (iindex.update): shape, common value and number of entries stay what they were."""
    import numpy

    for ix in getattr(cube, "dims", []):
        if not hasattr(ix, "update") or len(ix.shape) < 2:
            continue
        by_col = {}
        for k in sorted(ix.keys()):
            by_col.setdefault(k[1:], []).append(k)
        for col, keys in sorted(by_col.items()):
            if len(keys) >= 2 and len(ix[keys[0]]) >= 2:
                row = int(ix[keys[0]][0])
                ix.update({keys[1]: numpy.array([row], dtype=numpy.uint32)})
                return True
    return False


def bits(res):
    import numpy

    if isinstance(res, tuple):
        return tuple(bits(x) for x in res)
    a = numpy.asarray(res)
    return (a.dtype.str, a.shape, a.tobytes())


def check(case, rec):
    import catii

    fresh, funcs = build_call(case)
    kind = case["kind"]
    what = "%s.calculate(%s)" % (kind, [f["agg"] for f in funcs])
    sched = case["schedule"]
    with warnings.catch_warnings(record=True) as wlog:
        warnings.simplefilter("always")

        def emitted(start):
            return {(w.category.__name__, str(w.message)[:70]) for w in wlog[start:]}

        edited_cube = None
        if case.get("edited") and kind == "ccube":
            with libcall(what + " pooled, then an in-place edit of a dimension"):
                edited_cube, L0 = fresh()
                edited_cube.parallel = True
                edited_cube.poolsize = case["poolsize"]
                edited_cube.calculate(L0)
                build.reap_real_pools()
                if not edit_in_place(edited_cube, case):
                    edited_cube = None
        with libcall(what + " serial"):
            cube, L = fresh()
            if edited_cube is not None:
                cube = edited_cube  # the reference is the serial evaluation of the SAME (edited) cube object
                rec.note("cube evaluated pooled before an in-place edit of a dimension")
            cube.parallel = False
            mark = len(wlog)
            serial = [bits(r) for r in cube.calculate(L)]
            serial_warnings = emitted(mark)
        if getattr(cube, "scaffold_size", 3) <= 2:
            raise Violation("harness: cube has <= 2 sub-cubes", sig="harness")
        if sched["kind"] == "real":
            old = sys.getswitchinterval()
            sys.setswitchinterval(1e-6)
            try:
                for rep in range(sched["reps"]):
                    with libcall(what + " pooled (real threads)"):
                        cube, L = fresh()
                        if edited_cube is not None:
                            cube = edited_cube
                        if case.get("prior_interrupt") is not None and rep == 0:
                            _, L0 = fresh()
                            if give_it_a_past(cube, L0, case["prior_interrupt"], case["poolsize"]):
                                rec.note("cube with an interrupted pooled evaluation in its past")
                        cube.parallel = True
                        cube.poolsize = case["poolsize"]
                        mark = len(wlog)
                        got = [bits(r) for r in cube.calculate(L)]
                    extra = emitted(mark) - serial_warnings
                    if extra:
                        raise Violation("%s with a real ThreadPool(%d) emits warnings the serial evaluation does not: %s "
                                        "(with warnings turned into errors it raises where the serial run returns)"
                                        % (what, case["poolsize"], sorted(extra)[:2]),
                                        sig="%s pooled evaluation warns where serial does not" % kind)
                    if got != serial:
                        raise Violation("%s with a real ThreadPool(%d) differs from the serial result (repetition %d)"
                                        % (what, case["poolsize"], rep), sig="%s pooled != serial (real threads)" % kind)
            finally:
                sys.setswitchinterval(old)
            rec.count("real_thread_runs", sched["reps"])
            rec.note("mode=real", "kind=" + kind, "poolsize>=2" if case["poolsize"] >= 2 else "poolsize=1")
            if case["poolsize"] >= 2:
                rec.nontrivial()
            return
        pools = []

        def factory(size=None, *a, **k):
            p = DetPool(size, sched, os.path.dirname(catii.__file__))
            pools.append(p)
            return p

        with libcall(what + " pooled (DetPool)"):
            cube, L = fresh()
            if edited_cube is not None:
                cube = edited_cube
            if case.get("prior_interrupt") is not None:
                _, L0 = fresh()
                if give_it_a_past(cube, L0, case["prior_interrupt"], case["poolsize"]):
                    rec.note("cube with an interrupted pooled evaluation in its past")
        build.POOL_FACTORY[0] = factory
        try:
            with libcall(what + " pooled (DetPool)"):
                cube.parallel = True
                cube.poolsize = case["poolsize"]
                mark = len(wlog)
                got = [bits(r) for r in cube.calculate(L)]
                det_extra = emitted(mark) - serial_warnings
        finally:
            build.POOL_FACTORY[0] = None
            for p in pools:
                p.join()
    if det_extra:
        raise Violation("%s under DetPool(%d) emits warnings the serial evaluation does not: %s (with warnings turned into "
                        "errors it raises where the serial run returns)" % (what, case["poolsize"], sorted(det_extra)[:2]),
                        sig="%s pooled evaluation warns where serial does not" % kind)
    if got != serial:
        raise Violation("%s under DetPool(%d) with schedule %s differs from the serial result" % (
            what, case["poolsize"], {k: v for k, v in sched.items() if k != "prio"}),
            sig="%s pooled != serial (DetPool)" % kind)
    engaged = bool(pools) and pools[0].maps > 0
    rec.note("mode=det", "kind=" + kind, "schedule=" + sched["kind"], "engaged" if engaged else "DetPool not engaged")
    if engaged:
        p = pools[0]
        rec.count("opcode_steps", p.steps)
        rec.count("switches", p.switches)
        if p.max_alive >= 2 and p.switches >= 1:
            rec.nontrivial()
        if p.switches:
            rec.note("preempted")


SUBS = [
    Sub("det_large", check, strategy=lambda tier: large_cases(tier, "det"), examples={"quick": 240, "thorough": 8000},
        weight=6),
    Sub("real_large", check, strategy=lambda tier: large_cases(tier, "real"), examples={"quick": 16, "thorough": 600},
        shards={"quick": 4, "thorough": 8}, weight=8),
    Sub("det", check, strategy=lambda tier: cases(tier, "det"), examples={"quick": 6400, "thorough": 200000},
        weight=5),
    Sub("real", check, strategy=lambda tier: cases(tier, "real"), examples={"quick": 48, "thorough": 3000},
        shards={"quick": 4, "thorough": 8}, weight=9),
]
