"""C07 - every operation preserves index well-formedness (DESIGN.md section 3, C07)."""
from .. import machine as M
from ..core import Sub

PROPERTY = "C07"
LEVEL = "exploration"
RULE = (
    "The C06 state machine (same rules; union_update restricted to rows that are currently common, as the "
    "property's precondition requires) plus construction from arrays (from_array without a common value) and a "
    "save/load round trip through INDX for non-negative indexes. After EVERY step every live index must pass "
    "validate(check_comprehensive_unique=True) AND the conditions it does not check: key arity == ndim, int "
    "coordinates, higher coordinates within the shape, row ids < row count, strictly increasing uint32, no empty "
    "entry, nothing under the common value; and the consequences: abscissae == set of values that occur, sparsity "
    "== 100 * count(common) / size, ccube([index]).shape == extra extents + (max(values u {common}) + 1,). "
    "Expectations are derived from the index's own dense content, so a C06 defect does not leak in; a raising "
    "operation ends the history (C06 decides that). Non-trivial = a history with >= 3 mutating steps containing "
    "append-after-shift, update-after-append, a merging reindex or a collapse omitting a present value. "
    "Distinct by the full operation list."
)
ASSUMPTIONS = [
    "histories start from well-formed indexes and respect the preconditions listed for C06",
]

EX = {"quick": 4800, "thorough": 200000}
STEPS = {"quick": 25, "thorough": 40}


def runner(sub, tier, seed, shard, nshards, rec):
    M.run_machine(sub, tier, seed, shard, nshards, rec, "C07", EX, STEPS)


SUBS = [Sub("histories", M.replay, runner=runner, examples=EX, weight=5)]
