"""C07 - every operation preserves index well-formedness (DESIGN.md section 3, C07)."""
from .. import machine as M
from ..core import Sub

PROPERTY = "C07"
LEVEL = "exploration"
RULE = (
    "The C06 state machine (same rules; union_update restricted to rows that are currently common, as the "
    "property's precondition requires) plus construction from arrays (from_array without a common value) and a "
    "save/load round trip through INDX for non-negative indexes. After EVERY step every live index must pass "
    "validate(check_comprehensive_unique=True) AND the conditions it does not check: key arity == ndim, int "
    "coordinates, higher coordinates within the shape, row ids < row count, strictly increasing uint32, no empty "
    "entry, nothing under the common value; and the consequences: abscissae == set of values that occur, sparsity "
    "== 100 * count(common) / size, ccube([index]).shape == extra extents + (max(values u {common}) + 1,). "
    "Expectations are derived from the index's own dense content, so a C06 defect does not leak in; a raising "
    "operation ends the history (C06 decides that). Non-trivial = a history with >= 3 mutating steps containing "
    "append-after-shift, update-after-append, a merging reindex or a collapse omitting a present value. "
    "Distinct by the full operation list. construction: the C01 array strategy (all shape classes, common / counts / "
    "mapping options) through from_array, result checked with the same well-formedness predicate; non-trivial = at "
    "least 2 distinct values and a mapping or an explicit common value. long_entries: in-place set updates of an entry "
    "of 64..1025 consecutive row ids with row ids at block boundaries (see C06)."
)
ASSUMPTIONS = [
    "histories start from well-formed indexes and respect the preconditions listed for C06",
]

EX = {"quick": 4800, "thorough": 200000}
STEPS = {"quick": 25, "thorough": 40}


def runner(sub, tier, seed, shard, nshards, rec):
    M.run_machine(sub, tier, seed, shard, nshards, rec, "C07", EX, STEPS)


def construction_cases(tier):
    from . import c01

    return c01.cases(tier)


def check_construction(case, rec):
    """Construction from arrays with every option combination yields a well-formed index."""
    import numpy

    from catii import iindex

    from . import c01

    flat = c01.flat_values(case)
    a = numpy.array(flat, dtype=numpy.int64).reshape(case["shape"])
    a = c01.as_given(a, case.get("in_dtype", "int64"), case.get("layout", "C"))
    kwargs = {}
    if case["common"] is not None:
        kwargs["common"] = case["common"]
    if case["counts"]:
        kwargs["counts"] = c01.ordered_counts(flat, case.get("counts_order", "value"))
        for v in case.get("counts_extra", []):
            kwargs["counts"].setdefault(v, 0)  # categories that do not occur, listed with count 0
    if case["mapping"] is not None:
        kwargs["mapping"] = {k: v for k, v in case["mapping"]}
    if a.size == 0 and case["common"] is None and not kwargs.get("mapping"):
        return
    try:
        ix = iindex.from_array(a, **kwargs)
    except Exception:
        rec.note("from_array raised (C01 decides that)")
        return
    M.wellformed(ix, "from_array(%s array, common=%r, counts=%s, mapping=%s)" % (
        case["cls"], case["common"], case["counts"], case["mapkind"]), "from_array")
    rec.note("class=" + case["cls"], "mapping=" + case["mapkind"])
    if len(set(flat)) >= 2 and (case["mapping"] is not None or case["common"] is not None):
        rec.nontrivial()


def _long_entries(case, rec):
    from .. import giant as G

    return G.check_long_entries(case, rec)


def _enum_long(tier, shard, nshards):
    from .. import giant as G

    return G.enum_long_entries(tier, shard, nshards)


def _merges(case, rec):
    from .. import giant as G

    return G.check_merges(case, rec)


def _enum_merges(tier, shard, nshards):
    from .. import giant as G

    return G.enum_merges(tier, shard, nshards)


SUBS = [
    Sub("merges", _merges, enumerate=_enum_merges, exhaustive=True, shards={"quick": 4, "thorough": 8}),
    Sub("long_entries", _long_entries, enumerate=_enum_long, exhaustive=True, shards={"quick": 4, "thorough": 8}),
    Sub("histories", M.replay, runner=runner, examples=EX, weight=5),
    Sub("construction", check_construction, strategy=construction_cases,
        examples={"quick": 8000, "thorough": 200000}),
]
