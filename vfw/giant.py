"""Histories over GIANT sparse indexes (2^31 .. 2^32 rows, a handful of entries).

The dense NumPy model of the state machine cannot follow row counts in the billions, but an inverted index can:
only the listed row ids cost anything.  Here the model is sparse as well - {key: set(rows)} plus common value and
shape - and stands for the dense array "value v at (row, col) if row is listed under (v, col), else common".
Only operations whose cost does not depend on the row count are used: append, the three set updates, sliced,
slices1d, copy, column_stack of same-common indexes, reindexed with a mapping that keeps the common value,
and the cheap observers (get, size, ndim, ==).  This is where uint32 row-id arithmetic (offsets added on
append, ids up to 2^32-1) and size-dependent paths live.
"""
import itertools

from hypothesis import strategies as st

from .core import Violation, libcall

TOP = 2 ** 32
VALUES = [0, 1, 2, 3, 5, 300]


class Model(object):
    def __init__(self, n, tail, common, entries):
        self.n, self.tail, self.common = n, tuple(tail), common
        self.E = {tuple(k): set(r) for k, r in entries if r and k[0] != common}

    def copy(self):
        return Model(self.n, self.tail, self.common, [(k, set(v)) for k, v in self.E.items()])

    def cols(self):
        return list(itertools.product(*[range(e) for e in self.tail]))

    def value_rows(self, col):
        """{row: value} of the listed rows of one column."""
        out = {}
        for k, rows in self.E.items():
            if k[1:] == tuple(col):
                for r in rows:
                    out[r] = k[0]
        return out

    def listed(self):
        return sum(len(v) for v in self.E.values())

    def spec(self):
        return {"n": self.n, "tail": list(self.tail), "common": self.common,
                "entries": [[list(k), sorted(v)] for k, v in sorted(self.E.items())]}


def build(spec):
    import numpy

    from catii import iindex

    ents = {tuple(k): numpy.array(r, dtype=numpy.uint32) for k, r in spec["entries"] if r}
    return iindex(ents, spec["common"], (spec["n"],) + tuple(spec["tail"]))


def rows_near(n):
    """Row ids at both ends and around 2^31 (where a signed 32-bit view of the id would flip)."""
    picks = [st.integers(0, min(40, n - 1)), st.integers(max(0, n - 40), n - 1)]
    if n > 2 ** 31 + 50:
        picks.append(st.integers(2 ** 31 - 20, 2 ** 31 + 20))
    return st.one_of(*picks)


@st.composite
def new_spec(draw, giant, tail=None, common=None, max_rows=None):
    if tail is None:
        tail = draw(st.sampled_from([(), (), (2,), (3,), (2, 2)]))
    if giant:
        n = draw(st.sampled_from([2 ** 31 - 3, 2 ** 31, 2 ** 31 + 7, 3 * 2 ** 30, TOP - 70, TOP - 41, TOP - 1]))
    else:
        n = draw(st.integers(0, 30))
    if max_rows is not None:
        n = min(n, max_rows)
    if common is None:
        common = draw(st.sampled_from(VALUES[:4]))
    entries = []
    if n:
        for col in itertools.product(*[range(e) for e in tail]):
            rows = sorted(set(draw(st.lists(rows_near(n), max_size=8))))
            groups = {}
            for r in rows:
                groups.setdefault(draw(st.sampled_from([v for v in VALUES if v != common])), []).append(r)
            for v, rs in sorted(groups.items()):
                entries.append([[v] + list(col), rs])
    return {"n": n, "tail": list(tail), "common": common, "entries": entries}


@st.composite
def histories(draw, tier):
    first = draw(new_spec(True))
    models = [Model(first["n"], first["tail"], first["common"], [(tuple(k), r) for k, r in first["entries"]])]
    ops = [dict(first, op="new")]
    for _ in range(draw(st.integers(4, 14 if tier == "quick" else 24))):
        i = draw(st.integers(0, len(models) - 1))
        m = models[i]
        kind = draw(st.sampled_from(["append", "append", "setop", "setop", "sliced", "copy", "stack", "reindex",
                                     "new", "slices1d"]))
        if len(m.tail) > 1 and kind in ("append", "setop", "reindex", "stack"):
            continue  # three-axis indexes: slicing, slice iteration and copying only (the property's domain)
        if m.n < 2 ** 31 and kind in ("reindex", "stack"):
            continue  # these re-normalise: in a small index the listed rows may outnumber the common ones
        if kind == "new":
            spec = draw(new_spec(draw(st.booleans())))
            op = dict(spec, op="new")
        elif kind == "append":
            room = TOP - m.n
            if room <= 0:
                continue
            giant_other = m.n < 2 ** 31 and draw(st.booleans())
            # a giant operand keeps the receiver's common value (anything else would list billions of rows)
            other = draw(new_spec(giant_other, tail=m.tail, common=m.common if (giant_other or m.n < 2 ** 31) else None,
                                  max_rows=room))
            if not giant_other and m.n < 2 ** 31 and other["n"] + m.n < 2 ** 31:
                continue  # small + small is the ordinary machine's business
            op = {"op": "append", "i": i, "other": other}
        elif kind == "setop":
            which = draw(st.sampled_from(["union", "intersection", "difference"]))
            ents = []
            for col in m.cols():
                cur = m.value_rows(col)
                if which == "union":
                    if m.n == 0:
                        continue
                    fresh = [r for r in sorted(set(draw(st.lists(rows_near(m.n), max_size=5)))) if r not in cur]
                    groups = {}
                    for r in fresh:
                        groups.setdefault(draw(st.sampled_from([v for v in VALUES if v != m.common])), []).append(r)
                    for v, rs in sorted(groups.items()):
                        ents.append([[v] + list(col), rs])
                else:
                    for v in sorted({k[0] for k in m.E if k[1:] == tuple(col)} | {draw(st.sampled_from(VALUES))}):
                        if v == m.common or not draw(st.booleans()):
                            continue
                        have = sorted(m.E.get((v,) + tuple(col), ()))
                        keep = [r for r in have if draw(st.booleans())]
                        extra = [] if m.n == 0 else sorted(set(draw(st.lists(rows_near(m.n), max_size=3))))
                        ents.append([[v] + list(col), sorted(set(keep) | set(extra))])
            op = {"op": "setop", "kind": which, "i": i, "entries": ents}
        elif kind == "sliced":
            if not m.tail:
                continue
            orders = []
            for e in m.tail:
                o = draw(st.sampled_from(["int", "list", "none"]))
                orders.append(draw(st.integers(0, e - 1)) if o == "int" else None if o == "none" else
                              draw(st.lists(st.integers(0, e - 1), unique=True, min_size=1, max_size=e)))
            op = {"op": "sliced", "i": i, "orders": orders}
        elif kind == "slices1d":
            if not m.tail:
                continue
            op = {"op": "slices1d", "i": i}
        elif kind == "copy":
            op = {"op": "copy", "i": i}
        elif kind == "stack":
            js = [j for j, x in enumerate(models) if x.n == m.n and x.common == m.common and len(x.tail) <= 1]
            if len(m.tail) > 1 or not js:
                continue
            items = [i] + draw(st.lists(st.sampled_from(js), min_size=1, max_size=2))
            if sum((models[j].tail or (1,))[0] for j in items) > 8:
                continue
            op = {"op": "stack", "items": items, "copy": draw(st.booleans())}
        else:
            vals = sorted({k[0] for k in m.E} | {m.common})
            mapping = [[v, v if v == m.common else draw(st.sampled_from([x for x in VALUES + [7] if x != m.common]))]
                       for v in vals]
            op = {"op": "reindex", "i": i, "mapping": mapping}
        ops.append(op)
        apply_model(models, op)
        if len(models) > 5:
            break
    return {"ops": ops}


def apply_model(models, op):
    """Pure-Python semantics of one operation on the sparse models (appends new models for results)."""
    name = op["op"]
    if name == "new":
        models.append(Model(op["n"], op["tail"], op["common"], [(tuple(k), r) for k, r in op["entries"]]))
        return
    if name == "stack":
        items = [models[j] for j in op["items"]]
        E, c = [], 0
        for x in items:
            for col in (x.cols() if x.tail else [()]):
                for k, rows in x.E.items():
                    if k[1:] == tuple(col):
                        E.append(((k[0], c), set(rows)))
                c += 1
        models.append(Model(items[0].n, (c,), items[0].common, E))
        return
    m = models[op["i"]]
    if name == "append":
        o = op["other"]
        other = Model(o["n"], o["tail"], o["common"], [(tuple(k), r) for k, r in o["entries"]])
        for k, rows in other.E.items():
            if k[0] != m.common:
                m.E.setdefault(k, set()).update(r + m.n for r in rows)
        if other.common != m.common:
            for col in other.cols():
                listed = other.value_rows(col)
                rest = [r + m.n for r in range(other.n) if r not in listed]
                if rest:
                    m.E.setdefault((other.common,) + tuple(col), set()).update(rest)
        m.n += other.n
    elif name == "setop":
        for k, rows in op["entries"]:
            k = tuple(k)
            if op["kind"] == "union":
                if rows:
                    m.E.setdefault(k, set()).update(rows)
            elif op["kind"] == "difference":
                if k in m.E:
                    m.E[k] -= set(rows)
        if op["kind"] == "intersection":
            given = {tuple(k): set(r) for k, r in op["entries"]}
            for k in list(m.E):
                if k not in given:
                    del m.E[k]
                else:
                    m.E[k] &= given[k]
        m.E = {k: v for k, v in m.E.items() if v}
    elif name == "copy":
        models.append(m.copy())
    elif name == "sliced":
        tail, maps = [], []
        for e, o in zip(m.tail, op["orders"]):
            if isinstance(o, int):
                maps.append({o: None})
            else:
                order = list(range(e)) if o is None else o
                maps.append({old: new for new, old in enumerate(order)})
                tail.append(len(order))
        E = []
        for k, rows in m.E.items():
            new = []
            ok = True
            for c, mp in zip(k[1:], maps):
                if c not in mp:
                    ok = False
                    break
                if mp[c] is not None:
                    new.append(mp[c])
            if ok:
                E.append(((k[0],) + tuple(new), set(rows)))
        models.append(Model(m.n, tail, m.common, E))
    elif name == "slices1d":
        for col in m.cols():
            models.append(Model(m.n, (), m.common, [((k[0],), set(r)) for k, r in m.E.items() if k[1:] == tuple(col)]))
            if len(models) > 8:
                break
    elif name == "reindex":
        mp = {a: b for a, b in op["mapping"]}
        E = {}
        for k, rows in m.E.items():
            E.setdefault((mp[k[0]],) + k[1:], set()).update(rows)
        models.append(Model(m.n, m.tail, m.common, list(E.items())))


def compare(ix, m, where):
    import numpy

    if tuple(ix.shape) != (m.n,) + m.tail:
        raise Violation("%s: shape %r, expected %r" % (where, ix.shape, (m.n,) + m.tail), sig="giant index: shape")
    if ix.common != m.common:
        raise Violation("%s: common %r, expected %r (the listed rows are a vanishing fraction)" % (
            where, ix.common, m.common), sig="giant index: common value")
    got = {}
    for k, v in ix.items():
        if not isinstance(v, numpy.ndarray) or v.dtype != numpy.uint32:
            raise Violation("%s: entry %r is %s, not a uint32 array" % (where, k, getattr(v, "dtype", type(v))),
                            sig="giant index: entry dtype")
        rows = v.tolist()
        if not rows:
            raise Violation("%s: empty entry %r" % (where, k), sig="giant index: empty entry")
        if any(b <= a for a, b in zip(rows, rows[1:])) or rows[-1] >= max(m.n, 1):
            raise Violation("%s: entry %r lists %s (not strictly increasing below %d rows)" % (where, k, rows[:6], m.n),
                            sig="giant index: row ids not increasing / out of range")
        got[tuple(k)] = rows
    want = {k: sorted(v) for k, v in m.E.items() if v}
    if got != want:
        keys = sorted(set(got) ^ set(want)) or sorted(k for k in got if got[k] != want[k])
        k = keys[0]
        raise Violation("%s: entry %r holds %s, the history gives %s" % (where, k, got.get(k), want.get(k)),
                        sig="giant index: entries differ")


def check(case, rec):
    import numpy

    from catii import iindex
    from catii.iindexes import column_stack

    models, live = [], []
    flags = set()
    for step, op in enumerate(case["ops"]):
        name = op["op"]
        where = "step %d (%s)" % (step, name)
        before = len(models)
        apply_model(models, op)
        with libcall(where + " on giant sparse indexes"):
            if name == "new":
                live.append(build(op))
            elif name == "append":
                live[op["i"]].append(build(op["other"]))
                flags.add("append")
                if models[op["i"]].n > 2 ** 31 and op["other"]["n"]:
                    flags.add("row ids shifted beyond 2^31")
            elif name == "setop":
                other = {tuple(k): numpy.array(r, dtype=numpy.uint32) for k, r in op["entries"]}
                getattr(live[op["i"]], op["kind"] + "_update")(other)
                flags.add(op["kind"] + "_update")
            elif name == "copy":
                live.append(live[op["i"]].copy())
            elif name == "sliced":
                live.append(live[op["i"]].sliced(*op["orders"]))
            elif name == "slices1d":
                got = {tuple(c): s for c, s in live[op["i"]].slices1d()}
                cols = models[op["i"]].cols()
                if sorted(got) != sorted(cols):
                    raise Violation("%s: slices1d() labels %s, expected %s" % (where, sorted(got), sorted(cols)),
                                    sig="giant index: slices1d labels")
                for col in cols[: len(models) - before]:
                    live.append(got[col])
            elif name == "stack":
                live.append(column_stack([live[j] for j in op["items"]], copy=op["copy"]))
            elif name == "reindex":
                live.append(live[op["i"]].reindexed({a: b for a, b in op["mapping"]}))
        if len(live) != len(models):
            raise Violation("%s produced %d indexes, expected %d" % (where, len(live) - before, len(models) - before),
                            sig="giant index: number of results")
        for n, (ix, m) in enumerate(zip(live, models)):
            compare(ix, m, "%s: index #%d" % (where, n))
            with libcall("size / ndim / == of a giant index"):
                size, eq = ix.size, (ix == ix)
            want_size = m.n
            for e in m.tail:
                want_size *= e
            if size != want_size or eq is not True and not bool(eq):
                raise Violation("%s: index #%d has size %r (expected %d), == itself %r" % (where, n, size, want_size, eq),
                                sig="giant index: size / equality")
    rec.count("steps", len(case["ops"]))
    for f in flags:
        rec.note(f)
    for m in models:
        if m.n >= 2 ** 31:
            rec.note("index with >= 2^31 rows")
            break
    if "row ids shifted beyond 2^31" in flags and len(flags) >= 2:
        rec.nontrivial()


# --------------------------------------------------------------------------- #
# long entries: set updates against entries of hundreds of consecutive row ids


def enum_long_entries(tier, shard, nshards):
    """An entry that is one long run of consecutive (or evenly spaced) row ids - a category of a sorted file -
    updated in place with a few row ids at and around block boundaries (63/64, 255/256, 511/512, first, last),
    some of them already listed, some new. Block-wise copying in the union / difference kernels has its slips here."""
    i = 0
    lengths = [64, 65, 257, 300, 513, 1025] if tier == "quick" else [64, 65, 129, 257, 300, 513, 1025, 2049, 4097]
    for n in lengths:
        for step in (1, 2):
            marks = sorted({0, 1, 62, 63, 64, 127, 128, 254, 255, 256, 257, 511, 512, n // 2, n - 2, n - 1} & set(range(n)))
            for kind in ("union", "difference", "intersection"):
                for m in marks:
                    for extra in ([], [n * step + 5], [m * step + 1] if step == 2 else [n * step + 1, n * step + 9]):
                        if i % nshards == shard:
                            yield {"n": n, "step": step, "kind": kind, "mark": m, "extra": extra,
                                   "two_d": bool(i % 3 == 0)}
                        i += 1


def check_long_entries(case, rec):
    import numpy

    from catii import iindex

    from .machine import wellformed
    from .cubes import dense_of

    n, step = case["n"], case["step"]
    rows = [step * j for j in range(n)]
    N = step * n + 12
    given = sorted(set([rows[case["mark"]]] + case["extra"]))
    given = [r for r in given if r < N]
    if case["two_d"]:
        ix = iindex({(1, 0): numpy.array(rows, dtype=numpy.uint32), (2, 1): numpy.array([3], dtype=numpy.uint32)}, 0, (N, 2))
        key = (1, 0)
        dense = numpy.zeros((N, 2), dtype=numpy.int64)
        dense[rows, 0] = 1
        dense[3, 1] = 2
        cell = lambda r: (r, 0)
    else:
        ix = iindex({(1,): numpy.array(rows, dtype=numpy.uint32)}, 0, (N,))
        key = (1,)
        dense = numpy.zeros(N, dtype=numpy.int64)
        dense[rows] = 1
        cell = lambda r: (r,)
    other = {key: numpy.array(given, dtype=numpy.uint32)}
    with libcall("%s_update on an entry of %d consecutive row ids" % (case["kind"], n)):
        getattr(ix, case["kind"] + "_update")(other)
    if case["kind"] == "union":
        for r in given:
            dense[cell(r)] = 1
    elif case["kind"] == "difference":
        for r in given:
            dense[cell(r)] = 0
    else:
        keep = set(given)
        for r in rows:
            if r not in keep:
                dense[cell(r)] = 0
        if case["two_d"]:
            dense[3, 1] = 0  # an entry absent from the operand is dropped by intersection_update
    what = "%s_update(%s) on an entry of %d row ids (step %d)" % (case["kind"], given, n, step)
    wellformed(ix, what, case["kind"] + "_update (long entry)")
    got = dense_of(ix)
    if got.shape != dense.shape or not numpy.array_equal(got, dense):
        bad = numpy.argwhere(got != dense)[0].tolist() if got.shape == dense.shape else None
        raise Violation("%s: the index no longer stands for the expected array (first difference at %s)" % (what, bad),
                        sig=case["kind"] + "_update wrong on a long entry")
    rec.note("kind=" + case["kind"], "n=%d" % n)
    rec.nontrivial_enum()


# --------------------------------------------------------------------------- #
# netting many categories into one


def enum_merges(tier, shard, nshards):
    """reindexed() with a mapping that nets k = 2..9 listed categories into ONE output value ("Other"), over periodic /
    first-appearance-ordered / blocked data: the merged entry is the union of k interleaved row-id lists."""
    i = 0
    for k in range(2, 10):
        for n in ((3 * k + 1, 40, 200) if tier == "quick" else (3 * k + 1, 40, 200, 1000)):
            for layout in ("round_robin", "blocks", "reversed_round_robin"):
                for target in ("new", "listed", "common"):
                    for shift in (True, False):
                        for two_d in (False, True):
                            if i % nshards == shard:
                                yield {"k": k, "n": n, "layout": layout, "target": target, "shift": shift, "two_d": two_d,
                                       "assume_unique": bool(i % 2)}
                            i += 1


def check_merges(case, rec):
    import numpy

    from .cubes import build_index, dense_of
    from .machine import wellformed

    k, n = case["k"], case["n"]
    a = numpy.zeros(n, dtype=numpy.int64)  # 0 = the dominant (common) value: every third row
    for r in range(n):
        if r % 3 == 0:
            continue
        j = (r - r // 3 - 1)
        if case["layout"] == "round_robin":
            a[r] = 1 + j % k
        elif case["layout"] == "reversed_round_robin":
            a[r] = k - j % k
        else:
            a[r] = 1 + min(k - 1, (j * k) // max(1, n - n // 3))
    a[0] = 50  # one more listed value that is not merged
    dense = numpy.column_stack([a, a[::-1]]) if case["two_d"] else a
    ix = build_index(dense, 0)
    target = {"new": 100, "listed": 50, "common": 0}[case["target"]]
    mapping = {v: target for v in range(1, k + 1)}
    what = "reindexed(%d categories -> %d, shift=%s) over %d rows (%s)" % (k, target, case["shift"], n, case["layout"])
    with libcall(what):
        out = ix.reindexed(dict(mapping), shift=case["shift"], assume_unique=case["assume_unique"] and case["target"] == "new")
    want = dense.copy()
    for v in range(1, k + 1):
        want[dense == v] = target
    wellformed(out, what, "reindexed (merge of many categories)")
    got = dense_of(out)
    if got.shape != want.shape or not numpy.array_equal(got, want):
        raise Violation("%s: the result does not stand for the recoded array" % what, sig="reindexed merge wrong content")
    rec.note("k=%d" % k, "layout=" + case["layout"], "target=" + case["target"])
    rec.nontrivial_enum()
