"""Run an Atheris/libFuzzer campaign as a sub-check (thorough tiers; a short smoke run in quick)."""
import json
import os
import re
import shutil
import subprocess
import sys

from . import build
from .core import VERIF, Violation, shard_seed


def run_campaign(sub, tier, seed, shard, nshards, rec, script, runs, asan, seed_corpus=None, max_len=2048,
                 asan_abort_is_violation=True, mode=None):
    n = runs[tier]
    work = os.path.join(VERIF, ".cache", "fuzz", "%s-%d-%d" % (sub.name, shard, os.getpid()))
    shutil.rmtree(work, ignore_errors=True)
    corpus = os.path.join(work, "corpus")
    scratch = os.path.join(work, "scratch")
    os.makedirs(corpus)
    os.makedirs(scratch)
    stats, viol, marker = (os.path.join(work, x) for x in ("stats.json", "viol.json", "marker.json"))
    # odd shards start from a small valid corpus, even shards from an empty one (both matter, see DESIGN)
    if seed_corpus is not None and shard % 2 == 1:
        seed_corpus(corpus)
    env = dict(os.environ)
    env["PYTHONPATH"] = VERIF + os.pathsep + os.path.join(VERIF, ".deps")
    env["VFW_SCRATCH"] = scratch
    env["VFW_MARKER"] = marker
    if mode:
        env["VFW_FUZZ_MODE"] = mode
    if asan:
        build.build_variant("asanfuzz")
        env["LD_PRELOAD"] = os.path.join(VERIF, ".deps", "asan_with_fuzzer.so")
        env["ASAN_OPTIONS"] = "detect_leaks=0:allocator_may_return_null=1:exitcode=99"
        env["VFW_FUZZ_VARIANT"] = "asanfuzz"
    cmd = [sys.executable, script, stats, viol, "-runs=%d" % n, "-seed=%d" % (shard_seed(seed, shard) % (2 ** 31) or 1),
           "-print_final_stats=1", "-artifact_prefix=" + work + os.sep, "-max_len=%d" % max_len,
           "-rss_limit_mb=3000", corpus]
    try:
        r = subprocess.run(cmd, env=env, capture_output=True, text=True, cwd=VERIF)
        if os.path.exists(viol):
            with open(viol) as f:
                v = json.load(f)
            rec.current = v["case"]
            raise Violation("fuzzing campaign: " + v["message"], sig=v.get("sig"))
        if r.returncode != 0:
            case = None
            try:
                with open(marker) as f:
                    case = json.load(f)
            except Exception:
                pass
            if case is not None and ("AddressSanitizer" in r.stderr or r.returncode in (99, -11, -6)):
                if not asan_abort_is_violation:
                    rec.note("campaign ended by an AddressSanitizer abort (C09 decides that)")
                    return
                rec.current = case
                lines = [l.strip() for l in r.stderr.splitlines() if "AddressSanitizer" in l or l.strip().startswith("#0")]
                raise Violation("fuzzing campaign aborted under AddressSanitizer (exit %s): %s" % (
                    r.returncode, " | ".join(lines[:4])), sig="AddressSanitizer report (fuzz)")
            raise RuntimeError("fuzz target failed (exit %s):\n%s" % (r.returncode, r.stderr[-3000:]))
        m = re.search(r"stat::number_of_executed_units:\s+(\d+)", r.stderr)
        executed = int(m.group(1)) if m else 0
        if os.path.exists(stats):
            with open(stats) as f:
                st = json.load(f)
            rec.digests.update(st["digests"])
            rec.classes.update(st["classes"])
            rec.samples.extend(st["samples"][-2:])
        rec.evaluations += executed
        rec.count("fuzz_executions", executed)
        rec.note("corpus=seeded" if (seed_corpus is not None and shard % 2 == 1) else "corpus=empty")
    finally:
        shutil.rmtree(work, ignore_errors=True)
