"""Independent INDX codec written from the IndxIO class docstring only (struct, no NumPy).

Layout (all integers unsigned little-endian):

    8   magic+version  b"INDX0001"
    8   payload size   number of bytes that follow these 16
    1   index dimensions (arity of every coordinate tuple)
    4   index length     (number of entries)
    1   index word size  iw in {1, 2, 4, 8}
    iw  common value
    iw * dims * length   coordinates, entry after entry
    1   rowid word size  rw in {1, 2, 4, 8}
    rw * length          number of row ids of each entry
    rw * sum(lengths)    row ids, entry after entry
"""
import struct

FMT = {1: "B", 2: "H", 4: "L", 8: "Q"}
MAGIC = b"INDX0001"


class RefDecodeError(Exception):
    pass


def narrowest(value):
    for w in (1, 2, 4, 8):
        if value < (1 << (8 * w)):
            return w
    raise ValueError("value does not fit 8 bytes: %r" % value)


def index_word_for(entries, common):
    m = common
    for coords, _ in entries:
        for c in coords:
            if c > m:
                m = c
    return narrowest(m)


def payload_size(entries, dims, iw, rw):
    n = len(entries)
    return 1 + 4 + 1 + iw + iw * dims * n + 1 + rw * n + rw * sum(len(r) for _, r in entries)


def ref_encode(entries, common, iw=None, rw=4, dims=None):
    """entries: ordered list of (coords tuple, rowid list)."""
    if dims is None:
        dims = len(entries[0][0]) if entries else 0
    if iw is None:
        iw = index_word_for(entries, common)
    out = [MAGIC, struct.pack("<Q", payload_size(entries, dims, iw, rw))]
    out.append(struct.pack("<B", dims))
    out.append(struct.pack("<L", len(entries)))
    out.append(struct.pack("<B", iw))
    out.append(struct.pack("<" + FMT[iw], common))
    for coords, _ in entries:
        out.append(struct.pack("<%d%s" % (len(coords), FMT[iw]), *coords))
    out.append(struct.pack("<B", rw))
    for _, rowids in entries:
        out.append(struct.pack("<" + FMT[rw], len(rowids)))
    for _, rowids in entries:
        out.append(struct.pack("<%d%s" % (len(rowids), FMT[rw]), *rowids))
    return b"".join(out)


def ref_decode(data):
    """Return dict(common, entries=[(coords, rowids)], iw, rw, dims, size). Strict."""
    if data[:8] != MAGIC:
        raise RefDecodeError("bad magic/version %r" % data[:8])
    if len(data) < 16:
        raise RefDecodeError("short header")
    (size,) = struct.unpack_from("<Q", data, 8)
    if len(data) != 16 + size:
        raise RefDecodeError("size field %d but %d payload bytes" % (size, len(data) - 16))
    off = 16
    try:
        (dims,) = struct.unpack_from("<B", data, off); off += 1
        (n,) = struct.unpack_from("<L", data, off); off += 4
        (iw,) = struct.unpack_from("<B", data, off); off += 1
        if iw not in FMT:
            raise RefDecodeError("index word size %d" % iw)
        (common,) = struct.unpack_from("<" + FMT[iw], data, off); off += iw
        if n and dims == 0:
            raise RefDecodeError("entries with zero coordinates (arity must be >= 1)")
        if n * iw * dims > len(data):
            raise RefDecodeError("truncated: index larger than the file")
        coords = []
        for _ in range(n):
            coords.append(struct.unpack_from("<%d%s" % (dims, FMT[iw]), data, off))
            off += iw * dims
        (rw,) = struct.unpack_from("<B", data, off); off += 1
        if rw not in FMT:
            raise RefDecodeError("rowid word size %d" % rw)
        lengths = struct.unpack_from("<%d%s" % (n, FMT[rw]), data, off); off += rw * n
        entries = []
        for c, ln in zip(coords, lengths):
            rowids = struct.unpack_from("<%d%s" % (ln, FMT[rw]), data, off)
            off += rw * ln
            entries.append((tuple(c), list(rowids)))
    except struct.error as e:
        raise RefDecodeError("truncated: %s" % e)
    if off != len(data):
        raise RefDecodeError("%d trailing bytes" % (len(data) - off))
    return {"common": common, "entries": entries, "iw": iw, "rw": rw, "dims": dims, "size": size}
