"""Runner core: sub-checks, recorder, process scheduler, evidence, exit codes.

A property module (vfw/props/cNN.py) defines

    PROPERTY = "C08"
    LEVEL = "exploration" | "fault_enumeration"
    RULE = "<how cases are generated and what makes one non-trivial>"
    ASSUMPTIONS = [...]
    SUBS = [Sub(...), ...]

Every Sub owns a `check(case, rec)` function that is a pure function of a
JSON-serialisable `case`; Hypothesis strategies (or enumerators) only produce
cases.  That makes every failure a replay file: `./check Cxx --replay f.json`
calls `check(case)` directly, without Hypothesis.
"""
import hashlib
import json
import math
import os
import resource
import signal
import sys
import time
import traceback
from collections import Counter

VERIF = os.path.dirname(os.path.dirname(os.path.abspath(__file__)))
NCPU = int(os.environ.get("VERIF_JOBS", "16"))


CLEANUP = []  # callables run at the end of every task (children leave through os._exit)


def run_cleanup():
    while CLEANUP:
        fn = CLEANUP.pop()
        try:
            fn()
        except Exception:
            pass


class Violation(Exception):
    """The code under test broke the property on the current case."""

    def __init__(self, message, sig=None):
        Exception.__init__(self, message)
        self.sig = sig or message.split(":")[0][:80]


class HarnessError(Exception):
    pass


def jsonable(x):
    """Convert NumPy scalars/arrays/tuples to plain JSON-serialisable data."""
    import numpy

    if isinstance(x, dict):
        return {str(k): jsonable(v) for k, v in x.items()}
    if isinstance(x, (list, tuple)):
        return [jsonable(v) for v in x]
    if isinstance(x, numpy.ndarray):
        return jsonable(x.tolist())
    if isinstance(x, numpy.generic):
        return x.item()
    if isinstance(x, (set, frozenset)):
        return sorted(jsonable(v) for v in x)
    return x


def compact(x, limit=48):
    """A readable copy of a case for the evidence file: long lists are abbreviated."""
    if isinstance(x, dict):
        return {k: compact(v, limit) for k, v in x.items()}
    if isinstance(x, (list, tuple)):
        if len(x) > limit:
            return [compact(v, limit) for v in x[:12]] + ["... %d more elements ..." % (len(x) - 16)] + [
                compact(v, limit) for v in x[-4:]]
        return [compact(v, limit) for v in x]
    return x


def digest(case):
    return hashlib.sha1(
        json.dumps(case, sort_keys=True, default=str).encode()
    ).hexdigest()[:16]


class Rec:
    """Per-task recorder: what was generated, what was non-trivial."""

    MAX_SAMPLES = 4

    def __init__(self):
        self.evaluations = 0
        self.digests = set()
        self.classes = Counter()
        self.samples = []
        self.current = None
        self.extra = Counter()  # free-form integer counters (steps, loads, ...)
        self.distinct_by_construction = 0  # enumerations: no digest needed
        self.marker = None  # open file: "case about to run", for crashes

    def begin(self, case):
        self.current = case
        self.evaluations += 1
        if self.marker is not None:
            self.marker.seek(0)
            self.marker.truncate()
            self.marker.write(json.dumps(case, default=str))
            self.marker.flush()

    def note(self, *classes):
        for c in classes:
            self.classes[c] += 1

    def count(self, key, n=1):
        self.extra[key] += n

    def nontrivial_enum(self, case=None):
        """Non-trivial case of an enumeration whose cases are pairwise distinct."""
        self.distinct_by_construction += 1
        if len(self.samples) < self.MAX_SAMPLES:
            case = self.current if case is None else case
            self.samples.append(compact(json.loads(json.dumps(case, default=str))))

    def nontrivial(self, case=None, key=None):
        case = self.current if case is None else case
        d = digest(case if key is None else key)
        if d not in self.digests:
            self.digests.add(d)
            n = len(self.digests)
            if n & (n - 1) == 0:  # 1st, 2nd, 4th, 8th ... distinct non-trivial case
                self.samples.append(compact(json.loads(json.dumps(case, default=str))))
                del self.samples[: -self.MAX_SAMPLES]

    def export(self):
        return {
            "evaluations": self.evaluations,
            "digests": sorted(self.digests),
            "classes": dict(self.classes),
            "samples": self.samples,
            "extra": dict(self.extra),
            "distinct_by_construction": self.distinct_by_construction,
        }


class libcall:
    """Context manager around calls into the code under test.

    Any exception escaping it is a Violation (the listed properties quantify
    over in-domain inputs; see DESIGN.md 1.4), bucketed by exception type and
    innermost catii frame.  Exceptions raised outside such a context are
    harness errors (exit 2), never violations.
    """

    def __init__(self, what, allow=()):
        self.what = what
        self.allow = allow

    def __enter__(self):
        return self

    def __exit__(self, et, ev, tb):
        if et is None or issubclass(et, (Violation, HarnessError)):
            return False
        if not issubclass(et, Exception):
            return False
        if self.allow and issubclass(et, self.allow):
            return False
        where = "?"
        for fs in reversed(traceback.extract_tb(tb)):
            if "/catii/" in fs.filename or fs.filename.endswith(".pyx"):
                where = "%s:%s" % (os.path.basename(fs.filename), fs.name)
                break
        raise Violation(
            "%s raised %s: %s (at %s)" % (self.what, et.__name__, ev, where),
            sig="%s raised %s at %s" % (self.what.split("(")[0], et.__name__, where),
        ) from ev


class Sub:
    """One sub-check of a property."""

    def __init__(
        self,
        name,
        check,
        strategy=None,
        enumerate=None,
        runner=None,
        examples=None,
        shards=None,
        variant="plain",
        exhaustive=False,
        rlimit_gb=4,
        marker=False,
        weight=1,
    ):
        self.name = name
        self.check = check
        self.strategy = strategy
        self.enumerate = enumerate
        self.runner = runner
        self.examples = examples or {"quick": 1000, "thorough": 20000}
        self.shards = shards or {"quick": NCPU, "thorough": NCPU}
        self.variant = variant
        self.exhaustive = exhaustive
        self.rlimit_gb = rlimit_gb
        self.marker = marker
        self.weight = weight


# --------------------------------------------------------------------------- #
# running one task (in a forked child)


def shard_seed(seed, shard):
    return (int(seed) * 1000 + int(shard)) % (2 ** 63)


def hyp_settings(n, shrink=True):
    from hypothesis import HealthCheck, Phase, Verbosity, settings

    phases = [Phase.generate]
    if shrink:
        phases.append(Phase.shrink)
    return settings(
        max_examples=max(1, n),
        database=None,
        deadline=None,
        derandomize=False,
        report_multiple_bugs=False,
        suppress_health_check=list(HealthCheck),
        phases=phases,
        verbosity=Verbosity.quiet,
    )


def run_hypothesis(sub, tier, seed, shard, nshards, rec):
    import hypothesis
    from hypothesis import given

    n = int(math.ceil(sub.examples[tier] / float(nshards)))
    strat = sub.strategy(tier)

    guard = ShrinkGuard(rec, tier)

    @hypothesis.seed(shard_seed(seed, shard))
    @hyp_settings(n)
    @given(strat)
    def test(case):
        if guard.exhausted():
            return
        rec.begin(case)
        with guard:
            sub.check(case, rec)

    guard.run(test)


class ShrinkGuard(object):
    """Bounds the time Hypothesis spends shrinking a failure.

    From the first failure on, every failing case is remembered (Hypothesis only moves to smaller ones);
    once the budget is used up the remaining shrink attempts return immediately, and whatever Hypothesis
    concludes from that (usually a Flaky complaint on its final replay) is replaced by the smallest
    failing case actually observed.  A time budget never *creates* a violation: it only ends shrinking.
    """

    def __init__(self, rec, tier):
        self.rec = rec
        self.budget = 60.0 if tier == "quick" else 240.0
        self.first = None
        self.best = None

    def exhausted(self):
        return self.first is not None and time.time() - self.first > self.budget

    def __enter__(self):
        return self

    def __exit__(self, et, ev, tb):
        if et is not None and issubclass(et, Violation):
            if self.first is None:
                self.first = time.time()
            self.best = (json.loads(json.dumps(jsonable(self.rec.current), default=str)), str(ev), ev.sig)
        return False

    def run(self, fn):
        try:
            fn()
        except Violation:
            if self.best is not None:
                self.rec.current = self.best[0]
            raise
        except BaseException:
            if self.best is None:
                raise
            self.rec.current = self.best[0]
            raise Violation(self.best[1], sig=self.best[2])
        if self.best is not None:
            # the budget ran out and Hypothesis ended without re-raising: report what was seen
            self.rec.current = self.best[0]
            raise Violation(self.best[1], sig=self.best[2])


def run_enumeration(sub, tier, seed, shard, nshards, rec):
    for case in sub.enumerate(tier, shard, nshards):
        rec.begin(case)
        sub.check(case, rec)


def _task(pmod, sub, tier, seed, shard, nshards, marker_path):
    """Body of a child process; returns the result dict."""
    from . import build

    if sub.variant.startswith("asan") and os.environ.get("VFW_ASAN_CHILD") != "1":
        return _asan_parent(pmod, sub, tier, seed, shard, nshards, marker_path)
    if sub.rlimit_gb and sub.variant not in ("asan", "asanfuzz"):
        lim = int(sub.rlimit_gb * (1 << 30))
        resource.setrlimit(resource.RLIMIT_AS, (lim, lim))
    rec = Rec()
    if sub.marker and marker_path:
        rec.marker = open(marker_path, "w")
    t0 = time.time()
    out = {"sub": sub.name, "shard": shard, "failure": None, "harness_error": None}
    linecov = _linecov_start() if os.environ.get("VFW_LINECOV") else None
    if os.environ.get("VFW_DUMP_AFTER"):
        # debugging aid for hangs: dump all thread stacks of this worker after N seconds
        import faulthandler

        faulthandler.dump_traceback_later(int(os.environ["VFW_DUMP_AFTER"]), repeat=False,
                                          file=open("/tmp/vfw_dump.%s.%d.%d" % (sub.name, shard, os.getpid()), "w"))
    try:
        build.load_catii(sub.variant)
        if sub.runner is not None:
            sub.runner(sub, tier, seed, shard, nshards, rec)
        elif sub.enumerate is not None:
            run_enumeration(sub, tier, seed, shard, nshards, rec)
        else:
            run_hypothesis(sub, tier, seed, shard, nshards, rec)
    except Violation as v:
        out["failure"] = {
            "sig": v.sig,
            "message": str(v),
            "case": jsonable(rec.current),
            "seed": seed,
            "shard": shard,
        }
    except BaseException as e:  # harness problem: never a VIOLATION
        if isinstance(e, (KeyboardInterrupt, SystemExit)):
            raise
        out["harness_error"] = "%s\n%s\ncase=%s" % (
            repr(e), traceback.format_exc(), json.dumps(jsonable(rec.current), default=str)[:2000]
        )
    finally:
        run_cleanup()
        if linecov is not None:
            _linecov_dump(linecov, "%s.%s.%d" % (getattr(pmod, "PROPERTY", "?"), sub.name, shard))
    out["rec"] = rec.export()
    out["wall"] = time.time() - t0
    return out


def _linecov_start():
    """Self-audit aid (tools/linecov.py): record which lines of the catii package a sub-check executes."""
    seen = set()
    mon = sys.monitoring
    tool = mon.COVERAGE_ID
    try:
        mon.use_tool_id(tool, "vfw-linecov")
    except ValueError:
        return None

    def on_line(code, line):
        fn = code.co_filename
        if os.sep + "catii" + os.sep in fn:
            seen.add((os.path.basename(fn), line))
        return mon.DISABLE

    mon.register_callback(tool, mon.events.LINE, on_line)
    mon.set_events(tool, mon.events.LINE)
    return seen


def _linecov_dump(seen, tag):
    d = os.environ["VFW_LINECOV"]
    os.makedirs(d, exist_ok=True)
    with open(os.path.join(d, tag + ".json"), "w") as f:
        json.dump(sorted(seen), f)


def _asan_summary(stderr):
    lines = [l for l in stderr.splitlines() if "AddressSanitizer" in l or l.strip().startswith("#0")
             or l.strip().startswith("#1") or "located" in l]
    return " | ".join(l.strip() for l in lines[:6]) or stderr[-400:]


def _asan_parent(pmod, sub, tier, seed, shard, nshards, marker_path):
    """Run the task in an exec'd child with the ASan runtime preloaded."""
    import subprocess

    from . import build

    out_path = marker_path + ".out"
    for pth in (out_path, marker_path):
        try:
            os.remove(pth)
        except OSError:
            pass
    cmd = [sys.executable, "-m", "vfw.asan_child", pmod.__name__, sub.name, tier,
           str(seed), str(shard), str(nshards), marker_path, out_path]
    t0 = time.time()
    r = subprocess.run(cmd, env=build.asan_env(), capture_output=True, text=True, cwd=VERIF)
    base = {"sub": sub.name, "shard": shard, "failure": None, "harness_error": None,
            "rec": Rec().export(), "wall": time.time() - t0}
    try:
        if r.returncode == 0 and os.path.exists(out_path):
            with open(out_path) as f:
                return json.load(f)
        case = None
        try:
            with open(marker_path) as f:
                case = json.load(f)
        except Exception:
            pass
        if case is not None and ("AddressSanitizer" in r.stderr or r.returncode < 0 or r.returncode == 99):
            base["failure"] = {
                "sig": "AddressSanitizer report" if "AddressSanitizer" in r.stderr else "crash under ASan",
                "message": "kernel run under AddressSanitizer aborted (exit %s): %s"
                           % (r.returncode, _asan_summary(r.stderr)),
                "case": case, "seed": seed, "shard": shard,
            }
        else:
            base["harness_error"] = "asan child exit %s\n%s" % (r.returncode, r.stderr[-3000:])
        return base
    finally:
        for pth in (out_path,):
            try:
                os.remove(pth)
            except OSError:
                pass


def _child(conn, args):
    try:
        res = _task(*args)
    except BaseException as e:
        res = {"sub": args[1].name, "shard": args[4], "failure": None,
               "harness_error": "child: %r\n%s" % (e, traceback.format_exc()),
               "rec": Rec().export(), "wall": 0.0}
    try:
        conn.send(res)
        conn.close()
    finally:
        os._exit(0)


def run_tasks(pmod, tier, seed, only=None, timeout=None):
    """Run all (sub, shard) tasks of a property on NCPU forked processes."""
    import multiprocessing

    from . import build

    ctx = multiprocessing.get_context("fork")
    subs = [s for s in pmod.SUBS if only is None or s.name in only]
    for v in sorted({s.variant for s in subs}):
        build.build_variant(v)  # serial, cached; BuildError -> exit 2 upstream
    os.makedirs(os.path.join(VERIF, ".cache", "markers"), exist_ok=True)
    tasks = []
    for s in subs:
        ns = max(1, min(s.shards[tier], s.examples[tier])) if s.enumerate is None and s.runner is None else s.shards[tier]
        for shard in range(ns):
            mp = os.path.join(
                VERIF, ".cache", "markers",
                "%s-%s-%d-%d.json" % (pmod.PROPERTY, s.name, shard, os.getpid()),
            )
            tasks.append((pmod, s, tier, seed, shard, ns, mp))
    tasks.sort(key=lambda t: -t[1].weight)
    pending = list(tasks)
    running = {}
    results = []
    deadline = timeout or (1500 if tier == "quick" else 6 * 3600)
    while pending or running:
        while pending and len(running) < NCPU:
            t = pending.pop(0)
            parent, child = ctx.Pipe(duplex=False)
            p = ctx.Process(target=_child, args=(child, t))
            p.start()
            child.close()
            running[p.sentinel] = (p, parent, t, time.time())
        from multiprocessing.connection import wait

        ready = wait(list(running), timeout=1.0)
        now = time.time()
        for sent in list(running):
            p, parent, t, started = running[sent]
            res = None
            if parent.poll():
                try:
                    res = parent.recv()
                    p.join(10)
                except (EOFError, OSError):
                    # pipe closed without a result: the child died
                    p.join(10)
                    res = _crash_result(t, p.exitcode)
            elif sent in ready or not p.is_alive():
                p.join(10)
                if parent.poll():
                    try:
                        res = parent.recv()
                    except EOFError:
                        res = None
                if res is None:
                    res = _crash_result(t, p.exitcode)
            elif now - started > deadline:
                p.kill()
                p.join(10)
                res = {"sub": t[1].name, "shard": t[4], "failure": None,
                       "harness_error": "timeout after %ds (inconclusive)" % deadline,
                       "rec": Rec().export(), "wall": now - started}
            if res is not None:
                results.append(res)
                del running[sent]
                try:
                    os.remove(t[6])
                except OSError:
                    pass
    return results


def _crash_result(t, exitcode):
    """A child died without reporting (signal / abort)."""
    sub = t[1]
    case = None
    try:
        with open(t[6]) as f:
            case = json.load(f)
    except Exception:
        pass
    msg = "worker process died with exit code %r while running sub-check %s" % (
        exitcode, sub.name)
    base = {"sub": sub.name, "shard": t[4], "rec": Rec().export(), "wall": 0.0,
            "failure": None, "harness_error": None}
    crashy = exitcode is not None and (exitcode < 0 or exitcode == 99)
    if sub.marker and crashy and case is not None:
        # memory-safety style failure in the code under test (segfault, abort)
        base["failure"] = {"sig": "process crash (exit %r)" % exitcode,
                           "message": msg, "case": case, "seed": t[3], "shard": t[4]}
    else:
        base["harness_error"] = msg
    return base


# --------------------------------------------------------------------------- #
# replay, evidence, main


def find_sub(pmod, name):
    for s in pmod.SUBS:
        if s.name == name:
            return s
    raise HarnessError("no sub-check %r in %s" % (name, pmod.PROPERTY))


def replay_file(pmod, path):
    """Re-execute one saved case without Hypothesis. Returns None or message."""
    from . import build

    with open(path) as f:
        data = json.load(f)
    sub = find_sub(pmod, data["sub"])
    build.load_catii(sub.variant)
    rec = Rec()
    rec.begin(data["case"])
    try:
        sub.check(data["case"], rec)
    except Violation as v:
        return str(v)
    return None


def _replay_child(conn, pmod, path):
    try:
        conn.send(("ok", replay_file(pmod, path)))
    except BaseException as e:
        conn.send(("err", "%r\n%s" % (e, traceback.format_exc())))
    run_cleanup()
    os._exit(0)


def replay_isolated(pmod, path):
    """Replay in a forked child (so that each replay can pick its variant)."""
    import multiprocessing

    with open(path) as f:
        subname = json.load(f)["sub"]
    if find_sub(pmod, subname).variant.startswith("asan"):
        return _replay_asan(pmod, path)
    ctx = multiprocessing.get_context("fork")
    parent, child = ctx.Pipe(duplex=False)
    p = ctx.Process(target=_replay_child, args=(child, pmod, path))
    p.start()
    child.close()
    p.join(600)
    if parent.poll():
        kind, val = parent.recv()
        if kind == "err":
            raise HarnessError("replay of %s failed in the harness: %s" % (path, val))
        return val
    if p.exitcode is not None and (p.exitcode < 0 or p.exitcode == 99):
        return "process crashed with exit code %r" % p.exitcode
    raise HarnessError("replay of %s: child exit %r without result" % (path, p.exitcode))


def _replay_asan(pmod, path):
    import subprocess
    import tempfile

    from . import build

    build.build_variant("asan")
    fd, out = tempfile.mkstemp(dir=os.path.join(VERIF, ".cache"), suffix=".replay")
    os.close(fd)
    os.remove(out)
    r = subprocess.run([sys.executable, "-m", "vfw.asan_child", "--replay", pmod.__name__,
                        os.path.abspath(path), out],
                       env=build.asan_env(), capture_output=True, text=True, cwd=VERIF)
    try:
        if r.returncode == 0 and os.path.exists(out):
            with open(out) as f:
                return json.load(f)["message"]
        if "AddressSanitizer" in r.stderr or r.returncode < 0 or r.returncode == 99:
            return "aborted under AddressSanitizer (exit %s): %s" % (r.returncode, _asan_summary(r.stderr))
        raise HarnessError("asan replay child exit %s: %s" % (r.returncode, r.stderr[-2000:]))
    finally:
        try:
            os.remove(out)
        except OSError:
            pass


def save_failure(pmod, failure, sub):
    d = os.path.join(VERIF, "replays", "found")
    os.makedirs(d, exist_ok=True)
    body = {
        "property": pmod.PROPERTY,
        "sub": sub,
        "case": failure["case"],
        "message": failure["message"],
        "seed": failure.get("seed"),
        "shard": failure.get("shard"),
    }
    name = "%s-%s-%s.json" % (pmod.PROPERTY, sub, digest(failure["case"]))
    path = os.path.join(d, name)
    with open(path, "w") as f:
        json.dump(body, f, indent=1, default=str)
    return path


def load_known():
    p = os.path.join(VERIF, "known_findings.json")
    if not os.path.exists(p):
        return {"known": [], "fixed": []}
    with open(p) as f:
        return json.load(f)


def write_evidence(pmod, tier, seed, results, wall, violations, replayed, partial=False):
    evaluations = replayed
    digests = set()
    per_sub = {}
    samples = []
    for r in results:
        rec = r["rec"]
        s = per_sub.setdefault(
            r["sub"],
            {"evaluations": 0, "distinct_nontrivial": set(), "classes": Counter(),
             "extra": Counter(), "samples": [], "shards": 0, "wall_s": 0.0, "dbc": 0},
        )
        s["dbc"] += rec.get("distinct_by_construction", 0)
        s["evaluations"] += rec["evaluations"]
        s["distinct_nontrivial"].update(rec["digests"])
        s["classes"].update(rec["classes"])
        s["extra"].update(rec["extra"])
        s["shards"] += 1
        s["wall_s"] = round(s["wall_s"] + r.get("wall", 0.0), 2)
        if len(s["samples"]) < 2:
            s["samples"].extend(rec["samples"][-1:])
        evaluations += rec["evaluations"]
        digests.update(r["sub"] + ":" + d for d in rec["digests"])
    subs_by_name = {s.name: s for s in pmod.SUBS}
    all_exhaustive = bool(per_sub) and all(
        subs_by_name[n].exhaustive for n in per_sub
    )
    for name, s in per_sub.items():
        for smp in s["samples"]:
            samples.append({"sub": name, "case": smp})
        s["distinct_nontrivial"] = len(s["distinct_nontrivial"]) + s.pop("dbc")
        s["classes"] = dict(sorted(s["classes"].items()))
        s["extra"] = dict(sorted(s["extra"].items()))
        s["exhaustive"] = subs_by_name[name].exhaustive
    if not samples:
        samples = [{"sub": r["sub"], "case": r["failure"]["case"], "failing": True}
                   for r in results if r["failure"]][:4]
    if not samples:
        samples = [{"note": "no case completed"}]
    ev = {
        "property_id": pmod.PROPERTY,
        "tier": tier,
        "seed": int(seed),
        "level": pmod.LEVEL,
        "coverage": {
            "evaluations": int(evaluations),
            "distinct_nontrivial": sum(s["distinct_nontrivial"] for s in per_sub.values()),
            "rule": pmod.RULE,
            "samples": samples[:12],
            "exhaustive": all_exhaustive,
            "subchecks": per_sub,
            "regress_replays": replayed,
        },
        "assumptions": list(getattr(pmod, "ASSUMPTIONS", [])),
        "wall_s": round(wall, 2),
        "violations": int(violations),
    }
    d = os.path.join(VERIF, "evidence")
    if partial or os.path.realpath(os.environ.get("CATII_REPO", "/repo")) != os.path.realpath("/repo"):
        # runs against a scratch copy (mutants) or of a subset of sub-checks never touch the real evidence
        d = os.path.join(VERIF, ".cache", "evidence-scratch")
    os.makedirs(d, exist_ok=True)
    path = os.path.join(d, pmod.PROPERTY + ".json")
    tmp = path + ".tmp"
    with open(tmp, "w") as f:
        json.dump(ev, f, indent=1, default=str)
    os.replace(tmp, path)
    try:
        _selfcheck_evidence(path)
    except Exception as e:
        if violations or partial:
            sys.stderr.write("warning: evidence of this failing / partial run does not validate: %s\n"
                             % str(e).splitlines()[0])
        else:
            raise HarnessError("evidence file does not validate: %s" % e)
    return path


def _selfcheck_evidence(path):
    schema_path = "/root/.vp/EVIDENCE.schema.json"
    try:
        import jsonschema
    except ImportError:
        return
    if not os.path.exists(schema_path):
        return
    with open(schema_path) as f:
        schema = json.load(f)
    with open(path) as f:
        jsonschema.validate(json.load(f), schema)


def main_property(pmod, tier, seed, replay=None, only=None):
    import glob

    t0 = time.time()
    pid = pmod.PROPERTY
    if replay:
        msg = replay_isolated(pmod, replay)
        if msg is None:
            print("replay %s: property %s holds on this case" % (replay, pid))
            return 0
        print("replay %s: %s" % (replay, msg))
        print("VIOLATION property=%s replay=%s" % (pid, replay))
        return 1

    from . import build

    for v in sorted({s.variant for s in pmod.SUBS}):
        build.build_variant(v)

    violations = []
    # 1. saved-inputs tier: regression replays of every defect found so far
    regress = sorted(glob.glob(os.path.join(VERIF, "replays", "regress", pid + "-*.json")))
    for path in regress:
        msg = replay_isolated(pmod, path)
        if msg is not None:
            violations.append((path, msg))
    # 2. generated search
    results = run_tasks(pmod, tier, seed, only=only)
    harness = [r for r in results if r["harness_error"]]
    seen = set()
    for r in results:
        f = r["failure"]
        if f and f["sig"] not in seen:
            seen.add(f["sig"])
            path = save_failure(pmod, f, r["sub"])
            violations.append((path, f["message"]))
    known = load_known()
    for k in known.get("known", []):
        if k.get("property") == pid:
            print("KNOWN-FINDING: property=%s %s" % (pid, k.get("what", "")))
    wall = time.time() - t0
    if harness and not violations:
        for r in harness[:3]:
            sys.stderr.write("HARNESS ERROR in %s shard %s:\n%s\n" % (
                r["sub"], r["shard"], r["harness_error"]))
        return 2
    write_evidence(pmod, tier, seed, results, wall, len(violations), len(regress), partial=only is not None)
    ev = sum(r["rec"]["evaluations"] for r in results)
    print("%s tier=%s seed=%s: %d cases generated in %.1fs, %d regression replays, %d violation(s)"
          % (pid, tier, seed, ev, wall, len(regress), len(violations)))
    for path, msg in violations[:8]:
        print("  " + msg[:600].replace("\n", " | "))
        print("VIOLATION property=%s replay=%s" % (pid, os.path.relpath(path, VERIF)))
    return 1 if violations else 0
