"""Verification framework for Crunch-io/catii (property-based testing and fuzzing).

Layout: see DESIGN.md section 4. Nothing in this package imports `catii` at
import time; the working tree is loaded explicitly through `vfw.build.load_catii`.
"""
