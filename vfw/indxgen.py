"""Hypothesis strategies and helpers for INDX files (C10, C11, C12)."""
import os
import tempfile

from hypothesis import strategies as st

TOP32 = 2 ** 32 - 1
BOUNDS = [(0, 255), (256, 65535), (65536, TOP32), (2 ** 32, 2 ** 63 - 1)]


def width_class(v):
    for i, (lo, hi) in enumerate(BOUNDS):
        if v <= hi:
            return i
    raise ValueError(v)


def value_exact(cls):
    lo, hi = BOUNDS[cls]
    return st.one_of(st.sampled_from([lo, hi]), st.integers(lo, hi), st.integers(lo, min(hi, lo + 40)))


def value_upto(cls):
    return st.integers(0, cls).flatmap(value_exact) if cls else value_exact(0)


def rowid_lists(max_len):
    gap = st.one_of(st.integers(1, 3), st.integers(1, 70000), st.sampled_from([2 ** 24, 2 ** 31]))

    def build(gaps, anchor):
        vals = []
        if anchor == "high":
            v = TOP32
            for g in gaps:
                if v < 0:
                    break
                vals.append(v)
                v -= g
            vals.reverse()
        else:
            v = {"low": 0, "one": 1, "mid": 2 ** 31 - 2, "w16": 65534, "w8": 254}[anchor]
            for g in gaps:
                if v > TOP32:
                    break
                vals.append(v)
                v += g
        return vals

    return st.builds(build, st.lists(gap, min_size=0, max_size=max_len),
                     st.sampled_from(["low", "low", "one", "mid", "w16", "w8", "high"]))


@st.composite
def indx_cases(draw, max_entries=40, max_rowids=50, very_long=False):
    arity = draw(st.integers(1, 4))
    cc = draw(st.integers(0, 3))
    kc = draw(st.integers(0, 3))
    common = draw(value_exact(kc))
    n = draw(st.one_of(st.integers(0, 3), st.integers(0, max_entries)))
    coords = draw(st.lists(st.tuples(*[value_upto(cc)] * arity), min_size=n, max_size=n,
                           unique=True))
    if coords and draw(st.booleans()):
        # make sure the widest coordinate class really occurs
        first = list(coords[0])
        first[draw(st.integers(0, arity - 1))] = draw(value_exact(cc))
        if tuple(first) not in coords:
            coords[0] = tuple(first)
    many = None
    if very_long and draw(st.integers(0, 9)) == 0:
        # MANY entries, at block-size counts (a fully populated 8 x 128 or 16 x 256 grid of codes x columns):
        # built by construction, each with 0..2 row ids
        many = draw(st.sampled_from([255, 256, 257, 1023, 1024, 1025, 2048, 4095, 4096, 4097, 8192]))
        width = draw(st.sampled_from([64, 128, 256, 512]))
        base = draw(st.sampled_from([0, 0, 250, 65530]))
        coords = []
        for i in range(many):
            c = [base + i // width, i % width] + [i % 3] * (arity - 2) if arity >= 2 else [base + i]
            coords.append(tuple(c[:arity]))
        k = draw(st.integers(0, 2))
        rowids = [[(7 * i + j) for j in range((i + k) % 3)] for i in range(many)]
    rl = rowid_lists(max_rowids)
    if many is None:
        rowids = draw(st.lists(rl, min_size=len(coords), max_size=len(coords)))
    if coords and draw(st.integers(0, 5)) == 0:
        # one long entry (writers may treat long arrays differently from short ones)
        k = draw(st.integers(0, len(coords) - 1))
        n = draw(st.sampled_from([255, 256, 257, 1000, 4100]))
        if very_long and draw(st.integers(0, 3)) == 0:
            # 16 Ki / 64 Ki row ids (64 KiB / 256 KiB of payload): buffered or chunked writers switch strategy here
            n = draw(st.sampled_from([16383, 16384, 20000, 65541]))
        start = draw(st.sampled_from([0, 3, 2 ** 31 - 100, TOP32 - 3 * n]))  # the last id stays <= 2^32 - 1
        step = draw(st.integers(1, 3))
        rowids[k] = list(range(start, start + step * n, step))
    return {"common": common, "arity": arity,
            "entries": [[list(c), r] for c, r in zip(coords, rowids)],
            "layout": draw(st.sampled_from(["plain", "plain", "plain", "strided", "readonly", "reversed_keys"])),
            # coordinates as integer-valued Python floats (an index built from a float array): same file expected
            "keys": draw(st.sampled_from(["int", "int", "int", "int", "float"]))}


def case_entries(case):
    """dict {coords tuple: uint32 array} in case order, as a caller would pass to save()."""
    import numpy

    layout = case.get("layout", "plain")
    out = {}
    for c, r in case["entries"]:
        a = numpy.array(r, dtype=numpy.uint32)
        if layout == "strided":
            # a legal non-contiguous uint32 view (a column of a 2-D table, arr[::2], ...)
            big = numpy.full(2 * len(a) + 1, 0xDEADBEEF, dtype=numpy.uint32)
            big[1::2][: len(a)] = a
            a = big[1::2][: len(a)]
        elif layout == "readonly":
            a.setflags(write=False)
        out[tuple(c)] = a
    if case.get("keys") == "float" and all(x < 2 ** 53 for k in out for x in k):
        out = {tuple(float(x) for x in k): v for k, v in out.items()}
    if layout == "reversed_keys":
        out = dict(reversed(list(out.items())))
    return out


def case_list(case):
    return [(tuple(c), list(r)) for c, r in case["entries"]]


def is_nontrivial(case):
    ents = case["entries"]
    if len(ents) < 2:
        return False
    cmax = max(max(c) for c, _ in ents)
    return (
        width_class(cmax) != width_class(case["common"])
        or any(len(r) == 0 for _, r in ents)
        or case["arity"] >= 3
    )


_tmp = []


def scratch_dir():
    """A per-process scratch directory (tmpfs when available), removed at task end."""
    if os.environ.get("VFW_SCRATCH"):
        return os.environ["VFW_SCRATCH"]
    if not _tmp or _tmp[0][1] != os.getpid():
        import shutil

        from . import core

        base = "/dev/shm" if os.path.isdir("/dev/shm") and os.access("/dev/shm", os.W_OK) else None
        d = tempfile.mkdtemp(prefix="vfw-indx-", dir=base)
        _tmp[:] = [(d, os.getpid())]
        core.CLEANUP.append(lambda: shutil.rmtree(d, True))
    return _tmp[0][0]


def save_to_bytes(case, path=None):
    """IndxIO.save(case) into a real file; returns (bytes, path)."""
    import numpy

    from catii.indxio import IndxIO

    path = path or os.path.join(scratch_dir(), "f%d.indx" % os.getpid())
    with open(path, "wb") as f:
        IndxIO.save(f, case_entries(case), case["common"], numpy.dtype(numpy.uint32))
    with open(path, "rb") as f:
        return f.read(), path
