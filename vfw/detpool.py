"""DetPool: a deterministic, schedule-driven stand-in for multiprocessing.pool.ThreadPool.

`map(fn, iterable)` runs the tasks on min(size, ntasks) real threads of which exactly
one is runnable at any time.  Every worker installs a trace function that requests
per-opcode events for frames whose code lives in the catii package; at each such
opcode the scheduler consults the schedule (plain data, drawn by Hypothesis) and
may hand control to another live worker.  Calls into C (NumPy) are atomic steps.

Schedule forms:
  {"kind": "preempt", "prio": [...], "points": [[global_step, choice], ...]}
  {"kind": "random", "prio": [...], "prob_per_mille": p, "seed": s}
  {"kind": "stores", "prio": [...], "store_per_mille": q, "prob_per_mille": p, "seed": s}
      as "random", but the switch probability is q right before an opcode that writes to possibly shared state
      (STORE_ATTR / STORE_SUBSCR / STORE_GLOBAL / STORE_DEREF / DELETE_*) and p elsewhere: races need a switch
      between two writes, so the writes are where the schedule should be dense.
"""
import dis
import os
import random
import sys
import threading

WRITES = frozenset(dis.opmap[n] for n in ("STORE_ATTR", "STORE_SUBSCR", "STORE_GLOBAL", "STORE_DEREF", "DELETE_ATTR",
                                          "DELETE_SUBSCR", "DELETE_GLOBAL", "STORE_SLICE") if n in dis.opmap)


class DetPool(object):
    def __init__(self, size, schedule, catii_dir):
        self.size = max(1, int(size or 1))
        self.schedule = schedule
        self.dir = os.path.abspath(catii_dir) + os.sep
        self.steps = 0
        self.switches = 0
        self.max_alive = 0
        self.maps = 0
        self.closed = False
        self.points = {}
        self.rng = None
        self.store_prob = None
        self.store_steps = 0
        if schedule.get("kind") in ("random", "stores"):
            self.rng = random.Random(schedule.get("seed", 0))
            self.prob = schedule.get("prob_per_mille", 5) / 1000.0
            if schedule.get("kind") == "stores":
                self.store_prob = schedule.get("store_per_mille", 300) / 1000.0
        else:
            for step, choice in schedule.get("points", []):
                self.points[int(step)] = int(choice)
        self.threads = []

    # --- ThreadPool surface used by catii (and a little more)
    def close(self):
        self.closed = True

    def terminate(self):
        self.closed = True

    def join(self):
        for t in self.threads:
            t.join()

    def __enter__(self):
        return self

    def __exit__(self, *exc):
        self.terminate()

    def starmap(self, fn, iterable, chunksize=None):
        return self.map(lambda args: fn(*args), iterable)

    def map(self, fn, iterable, chunksize=None):
        tasks = list(iterable)
        self.maps += 1
        results = [None] * len(tasks)
        errors = [None] * len(tasks)
        if not tasks:
            return results
        if chunksize is not None and chunksize <= 0:
            # what multiprocessing.pool does with an explicit chunk size <= 0: the MapResult is complete at once,
            # no task ever runs and map() returns [None] * len(tasks)
            return results
        n = min(self.size, len(tasks))
        prio = [w for w in self.schedule.get("prio", []) if w < n]
        prio += [w for w in range(n) if w not in prio]
        self.cv = threading.Condition()
        self.alive = set(range(n))
        self.max_alive = max(self.max_alive, n)
        self.order = prio
        self.current = prio[0]
        self.next_task = 0
        self.threads = [threading.Thread(target=self._worker, args=(w, fn, tasks, results, errors))
                        for w in range(n)]
        for t in self.threads:
            t.start()
        for t in self.threads:
            t.join()
        for e in errors:
            if e is not None:
                raise e
        return results

    # --- scheduling
    def _wait_turn(self, w):
        with self.cv:
            while self.current != w:
                self.cv.wait()

    def _switch(self, w, to):
        with self.cv:
            self.current = to
            self.switches += 1
            self.cv.notify_all()
            while self.current != w:
                self.cv.wait()

    def _decide(self, w, frame=None):
        self.steps += 1
        if self.rng is not None:
            prob = self.prob
            if self.store_prob is not None and frame is not None:
                code = frame.f_code.co_code
                i = frame.f_lasti
                if 0 <= i < len(code) and code[i] in WRITES:
                    prob = self.store_prob
                    self.store_steps += 1
            if self.rng.random() >= prob:
                return
            choice = self.rng.randrange(1 << 16)
        else:
            choice = self.points.get(self.steps)
            if choice is None:
                return
        others = [x for x in self.order if x in self.alive and x != w]
        if others:
            self._switch(w, others[choice % len(others)])

    def _tracer(self, w):
        pool = self

        def local(frame, event, arg):
            if event == "opcode":
                pool._decide(w, frame)
            return local

        def glob(frame, event, arg):
            fn = frame.f_code.co_filename
            if fn.startswith(pool.dir):
                frame.f_trace_opcodes = True
                return local
            return None

        return glob

    def _worker(self, w, fn, tasks, results, errors):
        self._wait_turn(w)
        sys.settrace(self._tracer(w))
        try:
            while True:
                i = self.next_task
                if i >= len(tasks):
                    break
                self.next_task = i + 1
                try:
                    results[i] = fn(tasks[i])
                except BaseException as e:  # delivered by map(), like ThreadPool
                    errors[i] = e
        finally:
            sys.settrace(None)
            with self.cv:
                self.alive.discard(w)
                nxt = [x for x in self.order if x in self.alive]
                self.current = nxt[0] if nxt else None
                self.cv.notify_all()

    # asynchronous entry points are not scheduled deterministically
    def __getattr__(self, name):
        if name in ("imap", "imap_unordered", "apply_async", "map_async", "starmap_async", "apply"):
            from . import build

            real = build.real_threadpool()(self.size)
            return getattr(real, name)
        raise AttributeError(name)
