#!/bin/bash
# Offline setup: makes sure hypothesis / jsonschema / atheris are importable by /venv/bin/python.
# Installs nothing from the network; only from the wheelhouse into /verif/.deps when missing.
HERE="$(cd "$(dirname "${BASH_SOURCE[0]}")" && pwd)"
PY=/venv/bin/python
WH=/opt/veriftools/wheels
mkdir -p "$HERE/.deps" "$HERE/.cache"
export PYTHONPATH="$HERE/.deps"
need=()
for m in hypothesis jsonschema atheris; do
  $PY -c "import $m" 2>/dev/null || need+=("$m")
done
if [ ${#need[@]} -gt 0 ]; then
  (
    flock 9
    for m in "${need[@]}"; do
      $PY -c "import $m" 2>/dev/null && continue
      $PY -m pip install --quiet --no-index --find-links "$WH" --target "$HERE/.deps" "$m" || {
        # jsonschema / atheris are optional (evidence self-check, thorough fuzzing)
        [ "$m" = hypothesis ] && exit 1
      }
    done
  ) 9>"$HERE/.cache/.deps.lock"
fi
$PY -c "import hypothesis, numpy, Cython" || exit 1
exit 0
